(** The tokenizer on text that consists of well-formed token texts, each preceded by white space - which is what the
    writer produces outside comments, A2ML and IF_DATA.  The tokens it returns are exactly these texts with the expected
    types.  (C01/C02: the lexical half of the round trip.) *)
From Coq Require Import Ascii String List Bool Arith NArith ZArith Lia.
From A2L Require Import Text.Escape Text.IntText Lex.Tokenizer Gram.TokWriter Proofs.EscapeProofs Proofs.IntTextProofs Proofs.MergeProofs Proofs.TokenizerProofs.
Import ListNotations.
Local Open Scope char_scope.
Local Open Scope N_scope.

(* ---------- character classes ---------- *)
Lemma code_lt c : code c < 256.
Proof. unfold code. apply N_ascii_bounded. Qed.

Ltac lit_codes :=
  repeat match goal with
         | |- context [N_of_ascii (Ascii ?a ?b ?c ?d ?e ?f ?g ?h)] =>
             let v := eval vm_compute in (N_of_ascii (Ascii a b c d e f g h)) in
             change (N_of_ascii (Ascii a b c d e f g h)) with v
         | H : context [N_of_ascii (Ascii ?a ?b ?c ?d ?e ?f ?g ?h)] |- _ =>
             let v := eval vm_compute in (N_of_ascii (Ascii a b c d e f g h)) in
             change (N_of_ascii (Ascii a b c d e f g h)) with v in H
         end.
Ltac codes :=
  repeat (unfold is_pathchar, is_numchar, is_identchar, is_hexdigit, is_alnum, is_alpha, is_digit, is_ws, dq, bs, lf, cr in * );
  rewrite ?aeq_N in *; lit_codes; unfold code in *.


(* what the text of a token of each type has to look like *)
Definition ident_text (t : bytes) : Prop :=
  match t with c :: _ => is_alpha c || aeq c "_" = true | [] => False end /\
  Forall (fun c => is_identchar c = true) t /\ t <> b_a2ml.
Definition number_text (t : bytes) : Prop :=
  match t with
  | c :: tl => (aeq c "-" || is_numchar c = true) /\ is_alpha c || aeq c "_" = false /\ Forall (fun x => is_numchar x = true) tl
  | [] => False
  end /\ t <> ["-"] /\ t <> ["."] /\ t <> ["0"; "x"].
Definition token_text (sh : shape) : Prop :=
  match fst sh with
  | TIdentifier => ident_text (snd sh)
  | TNumber => number_text (snd sh)
  | TString => exists s, snd sh = dq :: escape s ++ [dq]
  | TBegin => snd sh = "/" :: b_begin
  | TEnd => snd sh = "/" :: b_end
  | TInclude | TComment => False
  end.
Definition ws_text (w : bytes) : Prop := w <> [] /\ Forall (fun c => is_ws c = true) w.
Lemma token_textb_sound sh : token_textb sh = true -> token_text sh.
Proof.
  destruct sh as [ty text]. unfold token_textb, token_text. cbn [fst snd]. destruct ty; intros H; try discriminate.
  - unfold ident_textb in H. apply andb_true_iff in H. destruct H as [H H3]. apply andb_true_iff in H. destruct H as [H1 H2].
    split; [destruct text; [discriminate | exact H1]|]. split; [apply Forall_forall; intros c Hc; rewrite forallb_forall in H2; apply H2, Hc|].
    intros ->. rewrite bytes_eqb_refl in H3. discriminate.
  - apply bytes_eqb_eq in H. exact H.
  - apply bytes_eqb_eq in H. exact H.
  - apply bytes_eqb_eq in H. eexists. exact H.
  - unfold number_textb in H. apply andb_true_iff in H. destruct H as [H N3]. apply andb_true_iff in H. destruct H as [H N2].
    apply andb_true_iff in H. destruct H as [H N1].
    split; [|repeat split; intros ->; [rewrite bytes_eqb_refl in N1 | rewrite bytes_eqb_refl in N2 | rewrite bytes_eqb_refl in N3]; discriminate].
    destruct text as [|c tl]; [discriminate|]. apply andb_true_iff in H. destruct H as [H Hall]. apply andb_true_iff in H. destruct H as [Hc Hna].
    split; [exact Hc|]. split; [apply negb_true_iff in Hna; exact Hna|]. apply Forall_forall. intros x Hx. rewrite forallb_forall in Hall. apply Hall, Hx.
Qed.

Definition unit_ok (u : bytes * shape) : Prop := ws_text (fst u) /\ token_text (snd u).
Definition render (us : list (bytes * shape)) : bytes := flat_map (fun u => fst u ++ snd (snd u)) us.

Lemma span_app (p : ascii -> bool) w rest : Forall (fun c => p c = true) w ->
  match rest with [] => True | d :: _ => p d = false end -> span p (w ++ rest) = (w, rest).
Proof.
  induction 1 as [|c w Hc Hw IH]; intros Hr; cbn [app span].
  - destruct rest as [|d r]; [reflexivity|]. cbn [span]. rewrite Hr. reflexivity.
  - rewrite Hc, (IH Hr). reflexivity.
Qed.

(* the first character of what follows a token: white space or nothing *)
Definition ws_first (rest : bytes) : Prop := match rest with [] => True | d :: _ => is_ws d = true end.

Ltac to_arith H := rewrite ?orb_true_iff, ?andb_true_iff, ?N.eqb_eq, ?N.leb_le in H.
Ltac is_false := apply not_true_is_false; let Hc := fresh "Hc" in intros Hc; to_arith Hc.

Lemma ws_not_token_char d : is_ws d = true -> is_identchar d = false /\ is_numchar d = false /\ aeq d dq = false /\ aeq d "/" = false.
Proof. intros H. codes. to_arith H. repeat split; is_false; lia. Qed.

Lemma ident_start_plain c : is_alpha c || aeq c "_" = true -> is_ws c = false /\ aeq c "/" = false /\ aeq c dq = false.
Proof. intros H. codes. to_arith H. repeat split; is_false; lia. Qed.

Lemma number_start_plain c : aeq c "-" || is_numchar c = true -> is_ws c = false /\ aeq c "/" = false /\ aeq c dq = false.
Proof. intros H. codes. to_arith H. repeat split; is_false; lia. Qed.

(* ---------- single steps of the scanner ---------- *)
Lemma step_ws fid st w rest : ws_text w -> ts_suf st = w ++ rest ->
  match rest with [] => True | d :: _ => is_ws d = false end ->
  one_token fid st = TOk (set_line (set_sep (advance st w rest) true) (ts_line st + count_newlines w)).
Proof.
  intros [Hne Hall] Hs Hr. unfold one_token. rewrite Hs.
  destruct w as [|c w']; [congruence|]. cbn [app]. inversion Hall as [|? ? Hc Hw]; subst. rewrite Hc.
  change (c :: w' ++ rest) with ((c :: w') ++ rest).
  rewrite (span_app is_ws (c :: w') rest Hall Hr). reflexivity.
Qed.

Definition no_include (st : tstate) : Prop := last_is_include (ts_toks st) = false.

Lemma step_ident fid st t rest : ident_text t -> ts_suf st = t ++ rest -> ws_first rest -> ts_sep st = true -> no_include st ->
  one_token fid st = TOk (set_sep (push (advance st t rest) TIdentifier (ts_pos st) t (ts_line st) fid) false).
Proof.
  intros (Hc & Hall & Hna) Hs Hr Hsep Hni. unfold one_token. rewrite Hs.
  destruct t as [|c t']; [destruct Hc|]. cbn [app].
  destruct (ident_start_plain c Hc) as (W & Sl & Q). rewrite W, Sl, Q. cbn [andb].
  unfold no_include in Hni. rewrite Hni. cbn [andb]. rewrite Hc.
  unfold sep_check. rewrite Hsep.
  change (c :: t' ++ rest) with ((c :: t') ++ rest).
  assert (Hr' : match rest with [] => True | d :: _ => is_identchar d = false end).
  { destruct rest as [|d r]; [exact I|]. apply (ws_not_token_char d Hr). }
  rewrite (span_app is_identchar (c :: t') rest Hall Hr').
  unfold handle_a2ml. cbn [ts_toks set_sep push].
  destruct (ts_toks (advance st (c :: t') rest)) as [|t2 tl]; [reflexivity|].
  cbn [tk_text]. destruct (bytes_eqb (c :: t') b_a2ml) eqn:E; [apply bytes_eqb_eq in E; contradiction|].
  rewrite andb_false_r. reflexivity.
Qed.

Lemma step_number fid st t rest : number_text t -> ts_suf st = t ++ rest -> ws_first rest -> ts_sep st = true -> no_include st ->
  one_token fid st = TOk (set_sep (push (advance st t rest) TNumber (ts_pos st) t (ts_line st) fid) false).
Proof.
  intros (Hshape & N1 & N2 & N3) Hs Hr Hsep Hni. unfold one_token. rewrite Hs.
  destruct t as [|c t']; [destruct Hshape|]. destruct Hshape as (Hc & Hna & Hall). cbn [app].
  destruct (number_start_plain c Hc) as (W & Sl & Q). rewrite W, Sl, Q. cbn [andb].
  unfold no_include in Hni. rewrite Hni. cbn [andb]. rewrite Hna, Hc.
  unfold sep_check. rewrite Hsep.
  assert (Hr' : match rest with [] => True | d :: _ => is_numchar d = false end).
  { destruct rest as [|d r]; [exact I|]. apply (ws_not_token_char d Hr). }
  rewrite (span_app is_numchar t' rest Hall Hr').
  assert (B : bytes_eqb (c :: t') ["-"] || bytes_eqb (c :: t') ["."] || bytes_eqb (c :: t') ["0"; "x"] = false).
  { apply orb_false_iff. split; [apply orb_false_iff; split|]; apply not_true_is_false; intros E; apply bytes_eqb_eq in E; contradiction. }
  destruct rest as [|d r]; [rewrite B; reflexivity|].
  destruct (ws_not_token_char d Hr) as (Hid & _). rewrite Hid. cbn [negb]. rewrite B. reflexivity.
Qed.

Lemma step_string fid st s rest : ts_suf st = (dq :: escape s ++ [dq]) ++ rest -> ws_first rest -> ts_sep st = true ->
  let text := dq :: escape s ++ [dq] in
  let line' := ts_line st + count_newlines text in
  one_token fid st = TOk (set_sep (set_line (push (advance st text rest) TString (ts_pos st) text line' fid) line') false).
Proof.
  intros Hs Hr Hsep. cbv zeta. unfold one_token. rewrite Hs. cbn [app].
  assert (W : is_ws dq = false) by reflexivity. assert (Sl : aeq dq "/" = false) by reflexivity. rewrite W, Sl. cbn [andb].
  rewrite aeq_refl. unfold sep_check. rewrite Hsep.
  rewrite <- app_assoc. cbn [app].
  assert (Hq : not_quote_first rest).
  { destruct rest as [|d r]; [exact I|]. apply (ws_not_token_char d Hr). }
  rewrite (string_token_exact s rest Hq).
  replace (length (escape s) + 1)%nat with (length (escape s ++ [dq])) by (rewrite app_length; reflexivity).
  assert (F : firstn (length (escape s ++ [dq])) (escape s ++ dq :: rest) = escape s ++ [dq]).
  { change (dq :: rest) with ([dq] ++ rest). rewrite app_assoc. rewrite firstn_app, Nat.sub_diag, firstn_all. cbn [firstn]. apply app_nil_r. }
  assert (K : skipn (length (escape s ++ [dq])) (escape s ++ dq :: rest) = rest).
  { change (dq :: rest) with ([dq] ++ rest). rewrite app_assoc. rewrite skipn_app, Nat.sub_diag, skipn_all. reflexivity. }
  rewrite F, K. reflexivity.
Qed.

Lemma step_begin fid st rest : ts_suf st = ("/" :: b_begin) ++ rest -> ts_sep st = true ->
  one_token fid st = TOk (set_sep (push (advance st ("/" :: b_begin) rest) TBegin (ts_pos st) ("/" :: b_begin) (ts_line st) fid) false).
Proof.
  intros Hs Hsep. unfold one_token. rewrite Hs. cbn [app b_begin list_ascii_of_string].
  unfold sep_check. rewrite Hsep. reflexivity.
Qed.

Lemma step_end fid st rest : ts_suf st = ("/" :: b_end) ++ rest -> ts_sep st = true ->
  one_token fid st = TOk (set_sep (push (advance st ("/" :: b_end) rest) TEnd (ts_pos st) ("/" :: b_end) (ts_line st) fid) false).
Proof.
  intros Hs Hsep. unfold one_token. rewrite Hs. cbn [app b_end list_ascii_of_string].
  unfold sep_check. rewrite Hsep. reflexivity.
Qed.

(* ---------- one token of any kind ---------- *)
Notation tshape := shape_of.

Lemma step_token fid st sh rest : token_text sh -> ts_suf st = snd sh ++ rest -> ws_first rest -> ts_sep st = true -> no_include st ->
  exists st' tk, one_token fid st = TOk st' /\ ts_suf st' = rest /\ ts_toks st' = tk :: ts_toks st /\ tshape tk = sh /\ tk_fileid tk = fid /\
                 no_include st'.
Proof.
  intros Ht Hs Hr Hsep Hni. destruct sh as [ty text]. unfold token_text in Ht. cbn [fst snd] in *.
  destruct ty.
  - eexists; eexists. split; [apply (step_ident fid st text rest Ht Hs Hr Hsep Hni)|]. repeat split.
  - subst text. eexists; eexists. split; [apply (step_begin fid st rest Hs Hsep)|]. repeat split.
  - subst text. eexists; eexists. split; [apply (step_end fid st rest Hs Hsep)|]. repeat split.
  - destruct Ht.
  - destruct Ht as [s ->]. eexists; eexists. split; [apply (step_string fid st s rest Hs Hr Hsep)|]. repeat split.
  - eexists; eexists. split; [apply (step_number fid st text rest Ht Hs Hr Hsep Hni)|]. repeat split.
  - destruct Ht.
Qed.

Lemma token_text_nonempty sh : token_text sh -> snd sh <> [].
Proof.
  destruct sh as [ty text]. unfold token_text. cbn [fst snd]. destruct ty; intros H.
  - destruct H as [H _]. destruct text; [destruct H | discriminate].
  - subst. discriminate.
  - subst. discriminate.
  - destruct H.
  - destruct H as [s ->]. discriminate.
  - destruct H as [H _]. destruct text; [destruct H | discriminate].
  - destruct H.
Qed.

Lemma ws_first_render us : Forall unit_ok us -> ws_first (render us).
Proof.
  intros H. destruct us as [|[w sh] us]; [exact I|]. inversion H as [|? ? [[Hne Hall] _] _]; subst. cbn [fst] in *.
  cbn [render flat_map fst]. destruct w as [|c w]; [congruence|]. cbn [app ws_first]. inversion Hall as [|? ? Hc _]; exact Hc.
Qed.

Lemma token_first_not_ws sh rest : token_text sh -> match snd sh ++ rest with [] => True | d :: _ => is_ws d = false end.
Proof.
  destruct sh as [ty text]. unfold token_text. cbn [fst snd]. destruct ty; intros H.
  - destruct H as (Hc & _). destruct text as [|c t]; [destruct Hc|]. cbn [app]. apply (ident_start_plain c Hc).
  - subst. reflexivity.
  - subst. reflexivity.
  - destruct H.
  - destruct H as [s ->]. reflexivity.
  - destruct H as (Hc & _). destruct text as [|c t]; [destruct Hc|]. destruct Hc as (Hc & _). cbn [app]. apply (number_start_plain c Hc).
  - destruct H.
Qed.

Lemma frev_rev' {A} (l : list A) : frev l = rev l.
Proof. unfold frev. rewrite rev_append_rev. apply app_nil_r. Qed.

(* ---------- the loop ---------- *)
Lemma loop_units fid : forall us st fuel, Forall unit_ok us -> ts_suf st = render us -> no_include st -> (2 * length us <= fuel)%nat ->
  exists new, tok_loop fuel fid st = TOk (frev (ts_toks st) ++ new) /\ map tshape new = map snd us /\ Forall (fun t => tk_fileid t = fid) new.
Proof.
  induction us as [|u us IH]; intros st fuel Hok Hs Hni Hf.
  - cbn [render flat_map] in Hs. exists []. destruct fuel; cbn [tok_loop]; rewrite Hs, app_nil_r; repeat split; constructor.
  - inversion Hok as [|? ? [Hw Ht] Hrest]; subst. destruct u as [w sh]. cbn [fst snd] in *.
    cbn [render flat_map fst snd] in Hs. fold (render us) in Hs. rewrite <- app_assoc in Hs.
    destruct fuel as [|[|fuel]]; [cbn in Hf; lia | cbn in Hf; lia |].
    (* white space *)
    pose proof (step_ws fid st w (snd sh ++ render us) Hw Hs (token_first_not_ws sh (render us) Ht)) as E1.
    set (st1 := set_line (set_sep (advance st w (snd sh ++ render us)) true) (ts_line st + count_newlines w)) in *.
    assert (S1 : ts_suf st1 = snd sh ++ render us) by reflexivity.
    assert (Sep1 : ts_sep st1 = true) by reflexivity.
    assert (Ni1 : no_include st1) by exact Hni.
    destruct (step_token fid st1 sh (render us) Ht S1 (ws_first_render us Hrest) Sep1 Ni1) as (st2 & tk & E2 & S2 & T2 & Sh2 & F2 & Ni2).
    destruct (IH st2 fuel Hrest S2 Ni2 ltac:(cbn [length] in Hf; lia)) as (new & E3 & M3 & F3).
    exists (tk :: new).
    assert (Hne1 : ts_suf st <> []).
    { rewrite Hs. destruct Hw as [Hne _]. destruct w; [congruence | discriminate]. }
    assert (Hne2 : ts_suf st1 <> []).
    { rewrite S1. pose proof (token_text_nonempty sh Ht). destruct (snd sh); [congruence | discriminate]. }
    cbn [tok_loop]. destruct (ts_suf st) eqn:Q; [congruence|]. rewrite E1.
    cbn [tok_loop]. destruct (ts_suf st1) eqn:Q1; [congruence|]. rewrite E2, E3, T2.
    assert (T1 : ts_toks st1 = ts_toks st) by reflexivity. rewrite T1.
    split; [|split].
    + f_equal. rewrite !frev_rev'. cbn [rev]. rewrite <- app_assoc. reflexivity.
    + cbn [map]. rewrite Sh2, M3. reflexivity.
    + constructor; assumption.
Qed.

Lemma render_cons u us : render (u :: us) = (fst u ++ snd (snd u)) ++ render us.
Proof. reflexivity. Qed.

Lemma render_length us : Forall unit_ok us -> (2 * length us <= length (render us))%nat.
Proof.
  induction 1 as [|u us [[Hne _] Ht] _ IH]; [apply Nat.le_refl|]. rewrite render_cons, !app_length.
  pose proof (token_text_nonempty (snd u) Ht) as Hn.
  assert (1 <= length (fst u))%nat by (destruct (fst u); [congruence | cbn; lia]).
  assert (1 <= length (snd (snd u)))%nat by (destruct (snd (snd u)); [congruence | cbn; lia]).
  cbn [length]. lia.
Qed.

(** the tokens of a text made of well-formed token texts, each preceded by white space, are exactly these texts *)
Theorem tokenize_units fid us : Forall unit_ok us ->
  exists toks, tokenize_core fid (render us) = TOk toks /\ map tshape toks = map snd us /\ Forall (fun t => tk_fileid t = fid) toks.
Proof.
  intros H. unfold tokenize_core.
  destruct (loop_units fid us (mkTS [] (render us) 0 true 1 []) (S (length (render us))) H eq_refl eq_refl) as (new & E & M & F).
  { pose proof (render_length us H). lia. }
  exists new. cbn [ts_toks frev rev_append app] in E. auto.
Qed.
Print Assumptions tokenize_units.

(* ---------- the lines of these tokens ---------- *)
Lemma lf_not_identchar c : is_identchar c = true -> aeq c lf = false.
Proof. intros H. destruct (aeq c lf) eqn:E; [|reflexivity]. unfold aeq in E. apply Ascii.eqb_eq in E. subst c. vm_compute in H. discriminate. Qed.
Lemma lf_not_numchar c : is_numchar c = true -> aeq c lf = false.
Proof. intros H. destruct (aeq c lf) eqn:E; [|reflexivity]. unfold aeq in E. apply Ascii.eqb_eq in E. subst c. vm_compute in H. discriminate. Qed.
Lemma lf_not_minus c : aeq c "-" = true -> aeq c lf = false.
Proof. intros H. destruct (aeq c lf) eqn:E; [|reflexivity]. unfold aeq in E. apply Ascii.eqb_eq in E. subst c. vm_compute in H. discriminate. Qed.

Lemma count_newlines_none l : Forall (fun c => aeq c lf = false) l -> count_newlines l = 0.
Proof. induction 1 as [|c l Hc Hl IH]; [reflexivity|]. cbn [count_newlines]. rewrite Hc, IH. reflexivity. Qed.

Lemma count_newlines_app' a b : count_newlines (a ++ b) = count_newlines a + count_newlines b.
Proof. induction a as [|c r IH]; cbn [app count_newlines]; [reflexivity|]. rewrite IH. destruct (aeq c lf); lia. Qed.

Lemma escape_no_newline s : count_newlines (escape s) = 0.
Proof.
  unfold escape. induction s as [|c s IH]; [reflexivity|]. cbn [flat_map]. rewrite count_newlines_app', IH. unfold esc1.
  destruct (aeq c sq || aeq c dq || aeq c bs) eqn:E1.
  { cbn [count_newlines]. apply orb_true_iff in E1. destruct E1 as [E1|E1]; [apply orb_true_iff in E1; destruct E1 as [E1|E1]|];
      unfold aeq in *; apply Ascii.eqb_eq in E1; subst c; reflexivity. }
  destruct (aeq c cr); [reflexivity|]. destruct (aeq c lf) eqn:E3; [reflexivity|]. destruct (aeq c tab); [reflexivity|].
  cbn [count_newlines]. rewrite E3. reflexivity.
Qed.

Lemma token_text_no_newline sh : token_text sh -> count_newlines (snd sh) = 0.
Proof.
  destruct sh as [ty text]. unfold token_text. cbn [fst snd]. destruct ty; intros H; try contradiction.
  - destruct H as (_ & Hall & _). apply count_newlines_none. eapply Forall_impl; [|exact Hall]. apply lf_not_identchar.
  - subst. reflexivity.
  - subst. reflexivity.
  - destruct H as (s & ->). change (dq :: escape s ++ [dq]) with ([dq] ++ escape s ++ [dq]).
    rewrite !count_newlines_app', escape_no_newline. reflexivity.
  - destruct H as (Hshape & _). destruct text as [|c tl]; [destruct Hshape|]. destruct Hshape as (Hc & _ & Hall).
    apply count_newlines_none. constructor.
    + apply orb_true_iff in Hc. destruct Hc as [Hc|Hc]; [apply lf_not_minus | apply lf_not_numchar]; exact Hc.
    + eapply Forall_impl; [|exact Hall]. apply lf_not_numchar.
Qed.

Lemma step_token_line fid st sh rest : token_text sh -> ts_suf st = snd sh ++ rest -> ws_first rest -> ts_sep st = true -> no_include st ->
  exists st' tk, one_token fid st = TOk st' /\ ts_suf st' = rest /\ ts_toks st' = tk :: ts_toks st /\ tshape tk = sh /\ tk_fileid tk = fid /\
                 no_include st' /\ tk_line tk = ts_line st /\ ts_line st' = ts_line st.
Proof.
  intros Ht Hs Hr Hsep Hni. pose proof (token_text_no_newline sh Ht) as Hnl.
  destruct sh as [ty text]. unfold token_text in Ht. cbn [fst snd] in *.
  destruct ty.
  - eexists; eexists. split; [apply (step_ident fid st text rest Ht Hs Hr Hsep Hni)|]. repeat split.
  - subst text. eexists; eexists. split; [apply (step_begin fid st rest Hs Hsep)|]. repeat split.
  - subst text. eexists; eexists. split; [apply (step_end fid st rest Hs Hsep)|]. repeat split.
  - destruct Ht.
  - destruct Ht as [s ->]. eexists; eexists. split; [apply (step_string fid st s rest Hs Hr Hsep)|].
    cbn [ts_suf ts_toks set_sep set_line push advance tk_line ts_line]. rewrite Hnl, N.add_0_r. repeat split.
  - eexists; eexists. split; [apply (step_number fid st text rest Ht Hs Hr Hsep Hni)|]. repeat split.
  - destruct Ht.
Qed.

(* the line of every token: the line breaks in the white space in front of it and of the tokens before it *)
Fixpoint ulines (l : N) (us : list (bytes * shape)) : list N :=
  match us with
  | [] => []
  | u :: r => (l + count_newlines (fst u)) :: ulines (l + count_newlines (fst u)) r
  end.

Lemma loop_units_lines fid : forall us st fuel, Forall unit_ok us -> ts_suf st = render us -> no_include st -> (2 * length us <= fuel)%nat ->
  exists new, tok_loop fuel fid st = TOk (frev (ts_toks st) ++ new) /\ map tshape new = map snd us /\
              map tk_line new = ulines (ts_line st) us.
Proof.
  induction us as [|u us IH]; intros st fuel Hok Hs Hni Hf.
  - cbn [render flat_map] in Hs. exists []. destruct fuel; cbn [tok_loop]; rewrite Hs, app_nil_r; repeat split; constructor.
  - inversion Hok as [|? ? [Hw Ht] Hrest]; subst. destruct u as [w sh]. cbn [fst snd] in *.
    cbn [render flat_map fst snd] in Hs. fold (render us) in Hs. rewrite <- app_assoc in Hs.
    destruct fuel as [|[|fuel]]; [cbn in Hf; lia | cbn in Hf; lia |].
    pose proof (step_ws fid st w (snd sh ++ render us) Hw Hs (token_first_not_ws sh (render us) Ht)) as E1.
    set (st1 := set_line (set_sep (advance st w (snd sh ++ render us)) true) (ts_line st + count_newlines w)) in *.
    assert (S1 : ts_suf st1 = snd sh ++ render us) by reflexivity.
    assert (Sep1 : ts_sep st1 = true) by reflexivity.
    assert (Ni1 : no_include st1) by exact Hni.
    destruct (step_token_line fid st1 sh (render us) Ht S1 (ws_first_render us Hrest) Sep1 Ni1)
      as (st2 & tk & E2 & S2 & T2 & Sh2 & F2 & Ni2 & Ln2 & Ls2).
    destruct (IH st2 fuel Hrest S2 Ni2 ltac:(cbn [length] in Hf; lia)) as (new & E3 & M3 & L3).
    exists (tk :: new).
    assert (Hne1 : ts_suf st <> []).
    { rewrite Hs. destruct Hw as [Hne _]. destruct w; [congruence | discriminate]. }
    assert (Hne2 : ts_suf st1 <> []).
    { rewrite S1. pose proof (token_text_nonempty sh Ht). destruct (snd sh); [congruence | discriminate]. }
    cbn [tok_loop]. destruct (ts_suf st) eqn:Q; [congruence|]. rewrite E1.
    cbn [tok_loop]. destruct (ts_suf st1) eqn:Q1; [congruence|]. rewrite E2, E3, T2.
    assert (T1 : ts_toks st1 = ts_toks st) by reflexivity. rewrite T1.
    split; [|split].
    + f_equal. rewrite !frev_rev'. cbn [rev]. rewrite <- app_assoc. reflexivity.
    + cbn [map]. rewrite Sh2, M3. reflexivity.
    + cbn [map ulines fst]. rewrite Ln2, L3, Ls2. reflexivity.
Qed.

Theorem tokenize_units_lines fid us : Forall unit_ok us ->
  exists toks, tokenize_core fid (render us) = TOk toks /\ map tshape toks = map snd us /\ map tk_line toks = ulines 1 us.
Proof.
  intros H. unfold tokenize_core.
  destruct (loop_units_lines fid us (mkTS [] (render us) 0 true 1 []) (S (length (render us))) H eq_refl eq_refl) as (new & E & M & L).
  { pose proof (render_length us H). lia. }
  exists new. cbn [ts_toks frev rev_append app] in E. auto.
Qed.
Print Assumptions tokenize_units_lines.

(* ---------- the integer texts the writer produces are well-formed number tokens ---------- *)
Lemma digits_fuel_chars upper base : base <= 16 -> 2 <= base -> forall fuel n,
  Forall (fun c => exists d, d < base /\ c = digit_char upper d) (digits_fuel fuel upper base n).
Proof.
  intros Hb Hb2. induction fuel as [|f IH]; intros n; cbn [digits_fuel]; [constructor|].
  destruct (N.ltb_spec n base).
  - constructor; [exists n; split; [assumption | reflexivity] | constructor].
  - apply Forall_app. split; [apply IH|]. constructor; [|constructor]. exists (n mod base). split; [apply N.mod_lt; lia | reflexivity].
Qed.

Lemma digit_char_dec d : d < 10 -> is_digit (digit_char false d) = true.
Proof.
  intros H. unfold digit_char. destruct (N.ltb_spec d 10); [|lia]. unfold is_digit, code. rewrite N_ascii_small by lia.
  apply andb_true_iff. split; apply N.leb_le; lia.
Qed.
Lemma digit_char_hex d : d < 16 -> is_hexdigit (digit_char true d) = true.
Proof.
  intros H. unfold digit_char, is_hexdigit, is_digit, code. destruct (N.ltb_spec d 10); rewrite N_ascii_small by lia.
  - apply orb_true_iff. left. apply orb_true_iff. left. apply andb_true_iff. split; apply N.leb_le; lia.
  - apply orb_true_iff. left. apply orb_true_iff. right. apply andb_true_iff. split; apply N.leb_le; lia.
Qed.
Lemma digit_is_numchar c : is_digit c = true -> is_numchar c = true /\ is_alpha c || aeq c "_" = false /\ aeq c "-" = false /\ aeq c "." = false /\ aeq c "x" = false.
Proof. intros H. codes. to_arith H. repeat split; try is_false; try lia. Qed.
Lemma hexdigit_is_numchar c : is_hexdigit c = true -> is_numchar c = true.
Proof. intros H. unfold is_numchar. rewrite H. reflexivity. Qed.

Lemma digits_nonempty upper base n : digits upper base n <> [].
Proof. unfold digits. apply digits_fuel_nonempty. Qed.

Theorem integer_text_is_number_token t z hex : number_text (add_integer_text t z hex).
Proof.
  unfold add_integer_text. destruct hex.
  - set (u := Z.to_N (z mod 2 ^ Z.of_N (ity_bits t))%Z).
    pose proof (digits_fuel_chars true 16 ltac:(lia) ltac:(lia) (Datatypes.S (N.to_nat (N.log2 u))) u) as Hall. fold (digits true 16 u) in Hall.
    pose proof (digits_nonempty true 16 u) as Hne.
    split; [|repeat split; try discriminate].
    + split; [reflexivity|]. split; [reflexivity|]. constructor; [reflexivity|].
      eapply Forall_impl; [|exact Hall]. intros c (d & Hd & ->). apply hexdigit_is_numchar, digit_char_hex. exact Hd.
    + intros H. injection H as H. contradiction.
  - unfold dec_of_Z.
    assert (D : forall n, Forall (fun c => is_digit c = true) (digits false 10 n)).
    { intros n. pose proof (digits_fuel_chars false 10 ltac:(lia) ltac:(lia) (Datatypes.S (N.to_nat (N.log2 n))) n) as Hall.
      fold (digits false 10 n) in Hall. eapply Forall_impl; [|exact Hall]. intros c (d & Hd & ->). apply digit_char_dec. exact Hd. }
    assert (P : forall n, number_text (digits false 10 n)).
    { intros n. pose proof (D n) as Dn. pose proof (digits_nonempty false 10 n) as Hne.
      destruct (digits false 10 n) as [|c tl]; [congruence|]. inversion Dn as [|? ? Hc Htl]; subst.
      destruct (digit_is_numchar c Hc) as (N1 & N2 & N3 & N4 & N5).
      split; [split; [rewrite N1; apply orb_true_r|]; split; [exact N2|]; eapply Forall_impl; [|exact Htl]; intros x Hx; apply (digit_is_numchar x Hx)|].
      repeat split; intros Q; injection Q as Q1 Q2; subst.
      - rewrite aeq_refl in N3. discriminate.
      - rewrite aeq_refl in N4. discriminate.
      - inversion Htl as [|? ? Hx _]; subst. destruct (digit_is_numchar _ Hx) as (_ & _ & _ & _ & X). rewrite aeq_refl in X. discriminate. }
    destruct z as [|p|p]; [apply P | apply P|].
    pose proof (D (Npos p)) as Dn. pose proof (digits_nonempty false 10 (Npos p)) as Hne.
    split; [split; [reflexivity|]; split; [reflexivity|]; eapply Forall_impl; [|exact Dn]; intros x Hx; apply (digit_is_numchar x Hx)|].
    repeat split; try discriminate. intros Q. injection Q as Q. contradiction.
Qed.
