(** C02, the direction load -> write, for IF_DATA that a definition describes: a successful run of the typed IF_DATA parser that
    reports nothing consumed exactly the tokens the writer prints for the value it returns, in the same order - tags, /begin and
    /end verbatim, strings with the same content, numbers as the canonical text of the value they were read as (the relation
    [reads_as] of Proofs/ParseTraceProofs.v).  Nothing is lost, nothing is invented, nothing changes its place: the tagged items
    are regrouped by tag in the model and come out of the group writer in the order in which they were read, because their ids
    increase in that order.

    First part: how the typed parser moves the cursor whatever the outcome ([moves]) - every construct that gives up puts the
    cursor back where it started.  Second part: the trace of a clean successful run. *)
From Coq Require Import Ascii String List Bool Arith NArith ZArith Lia Sorting.Sorted Permutation.
From A2L Require Import Base.StableSort Text.Escape Text.IntText Lex.Tokenizer Gram.Spec A2ml.Types Gram.PState Gram.Parser Gram.Writer Gram.TokWriter
  Proofs.CursorProofs Proofs.StrictWholeProofs Proofs.SeqMonoProofs Proofs.RoundTripProofs Proofs.RoundTripOrderProofs Proofs.ParseOrderProofs
  Proofs.ParseTraceProofs Proofs.TerminationProofs Proofs.GroupOrderProofs Proofs.IfdataRoundTripProofs Proofs.IfdataFollowProofs.
Import ListNotations.

(* ---------- the cursor ---------- *)
Lemma moves_from {A} (m : M A) ts0 s s1 r s' : moves m -> Inv s -> adv ts0 s s1 -> m s1 = (r, s') -> exists ts, adv ts s s'.
Proof.
  intros Hm I A0 E. destruct (Hm s1 r s' (adv_inv _ _ _ I A0) E) as (ts & A1). exists (ts0 ++ ts). exact (adv_trans _ _ _ _ _ A0 A1).
Qed.

Lemma moves_restore {A} (a : A) ts1 s s1 r s' : Inv s -> adv ts1 s s1 -> (set_tokenpos (ps_pos s) ;;; ret a) s1 = (r, s') ->
  r = ROk a /\ adv [] s s'.
Proof.
  intros I A1 E. destruct (set_tokenpos_back ts1 s s1 A1 (inv_pos s I)) as (s2 & E2 & A2).
  rewrite (bind_ok _ _ _ _ _ E2) in E. injection E as <- <-. auto.
Qed.

Lemma moves_gntc c : c_fileid c = O -> moves (get_next_tag_or_comment c).
Proof.
  intros Hc s r s1 I E. destruct (ps_after s) as [|t rest] eqn:Ea.
  - destruct (next_tag_eof c s Hc I Ea) as (s' & X & A). rewrite X in E. injection E as _ <-. exists []. exact A.
  - destruct (ttype_eqb (tk_type t) TIdentifier) eqn:EI.
    + apply ttype_eqb_eq in EI. destruct (next_tag_keyword c s t rest I Ea EI) as (off & s' & X & A). rewrite X in E. injection E as _ <-.
      exists [t]. exact A.
    + assert (NI : tk_type t <> TIdentifier) by (intros Q; rewrite Q in EI; discriminate).
      destruct (ttype_eqb (tk_type t) TBegin) eqn:EB.
      * apply ttype_eqb_eq in EB. destruct rest as [|t2 r2].
        { destruct (next_tag_begin_bad c s t [] Hc I Ea EB Logic.I) as (d & s' & X & A). rewrite X in E. injection E as _ <-. exists []. exact A. }
        destruct (ttype_eqb (tk_type t2) TIdentifier) eqn:EI2.
        { apply ttype_eqb_eq in EI2. destruct (next_tag_block c s t t2 r2 I Ea EB EI2) as (off & s' & X & A). rewrite X in E.
          injection E as _ <-. exists [t; t2]. exact A. }
        assert (NI2 : tk_type t2 <> TIdentifier) by (intros Q; rewrite Q in EI2; discriminate).
        destruct (next_tag_begin_bad c s t (t2 :: r2) Hc I Ea EB NI2) as (d & s' & X & A). rewrite X in E. injection E as _ <-. exists []. exact A.
      * assert (NB : tk_type t <> TBegin) by (intros Q; rewrite Q in EB; discriminate).
        destruct (next_tag_none c Hc s t rest I Ea NB NI) as (s' & X & A). rewrite X in E. injection E as _ <-. exists []. exact A.
Qed.

Lemma moves_remaining : moves remaining.
Proof. apply moves_still. reflexivity. Qed.

Global Hint Resolve moves_remaining : moves.

Section Moves.
  Variable rec : a2mlty -> ctx -> M gifd.
  Variable D : a2mlty -> Prop.
  Hypothesis Hrec : forall ty c, c_fileid c = O -> D ty -> moves (rec ty c).

  Lemma moves_array_items ty c : c_fileid c = O -> D ty -> forall n, moves (array_items rec n ty c).
  Proof. intros Hc Hd. induction n as [|n IH]; cbn [array_items]; [mv|]. apply moves_bind; [exact (Hrec ty c Hc Hd)|]. intros x. mv. Qed.

  Lemma moves_struct_items c : c_fileid c = O -> forall tys, Forall D tys -> moves (struct_items rec tys c).
  Proof.
    intros Hc. induction tys as [|ty tys IH]; intros Hd; cbn [struct_items]; [mv|]. inversion Hd; subst.
    apply moves_bind; [apply Hrec; assumption|]. intros x. apply moves_bind; [apply IH; assumption|]. intros xs. mv.
  Qed.

  Lemma moves_seq_items ty c : c_fileid c = O -> D ty -> forall n acc, moves (seq_items rec n ty c acc).
  Proof.
    intros Hc Hd. induction n as [|n IH]; intros acc s r s' I E; cbn [seq_items] in E.
    - injection E as _ <-. exists []. apply adv_refl, (inv_pos s I).
    - rewrite bind_tokenpos in E. unfold bindM at 1 in E. unfold try in E.
      destruct (rec ty c s) as [[g|d|x|] s1] eqn:Er; destruct (Hrec ty c Hc Hd s _ s1 I Er) as (ts1 & A1).
      + rewrite bind_tokenpos in E. destruct (Nat.eqb (ps_pos s1) (ps_pos s)).
        * destruct (moves_restore acc ts1 s s1 r s' I A1 E) as [_ A]. exists []. exact A.
        * destruct (IH (acc ++ [g]) s1 r s' (adv_inv _ _ _ I A1) E) as (ts2 & A2). exists (ts1 ++ ts2). exact (adv_trans _ _ _ _ _ A1 A2).
      + destruct (moves_restore acc ts1 s s1 r s' I A1 E) as [_ A]. exists []. exact A.
      + injection E as _ <-. exists ts1. exact A1.
      + injection E as _ <-. exists ts1. exact A1.
  Qed.

  Lemma moves_tagged_item spec c : c_fileid c = O -> Forall D (map tg_item spec) -> moves (tagged_item rec spec c).
  Proof.
    intros Hc Hd s r s' I E. unfold tagged_item in E. rewrite bind_tokenpos, bind_remaining in E.
    rewrite (bind_ok _ _ _ _ _ (skip_comments_none c _ s I)) in E. unfold bindM at 1 in E. unfold try in E.
    destruct (get_next_tag_or_comment c s) as [[bc|d|x|] s1] eqn:Eg.
    - destruct (next_tag_inv c Hc s bc s1 I Eg) as [(tB & tI & r0 & off & Ha & HB & HI & -> & A1)|[(tI & r0 & off & Ha & HI & -> & A1)|(-> & A1)]].
      + cbv zeta in E. destruct (find_tagged spec (tk_text tI)) as [tsp|] eqn:Ef.
        2:{ destruct (moves_restore _ _ s s1 r s' I A1 E) as [_ A]. exists []. exact A. }
        destruct (negb (Bool.eqb (tg_block tsp) true)).
        { destruct (moves_restore _ _ s s1 r s' I A1 E) as [_ A]. exists []. exact A. }
        assert (Hnc : c_fileid (ctx_from_token (tk_text tI) tI) = O).
        { cbn. destruct (tok_ok_in s tI I) as (Q & _); [rewrite Ha; right; left; reflexivity | exact Q]. }
        assert (Dt : D (tg_item tsp)).
        { destruct (find_tagged_in _ _ _ Ef) as (Hin & _). rewrite Forall_forall in Hd. apply Hd. apply in_map. exact Hin. }
        match type of E with ?m s1 = _ => assert (Mt : moves m) end.
        { apply moves_bind; [mv|]. intros uid. apply moves_bind; [exact (Hrec _ _ Hnc Dt)|]. intros data. mv. }
        exact (moves_from _ _ s s1 r s' Mt I A1 E).
      + cbv zeta in E. destruct (find_tagged spec (tk_text tI)) as [tsp|] eqn:Ef.
        2:{ destruct (moves_restore _ _ s s1 r s' I A1 E) as [_ A]. exists []. exact A. }
        destruct (negb (Bool.eqb (tg_block tsp) false)).
        { destruct (moves_restore _ _ s s1 r s' I A1 E) as [_ A]. exists []. exact A. }
        assert (Hnc : c_fileid (ctx_from_token (tk_text tI) tI) = O).
        { cbn. destruct (tok_ok_in s tI I) as (Q & _); [rewrite Ha; left; reflexivity | exact Q]. }
        assert (Dt : D (tg_item tsp)).
        { destruct (find_tagged_in _ _ _ Ef) as (Hin & _). rewrite Forall_forall in Hd. apply Hd. apply in_map. exact Hin. }
        match type of E with ?m s1 = _ => assert (Mt : moves m) end.
        { apply moves_bind; [mv|]. intros uid. apply moves_bind; [exact (Hrec _ _ Hnc Dt)|]. intros data. mv. }
        exact (moves_from _ _ s s1 r s' Mt I A1 E).
      + destruct (moves_restore _ _ s s1 r s' I A1 E) as [_ A]. exists []. exact A.
    - destruct (moves_gntc c Hc s _ s1 I Eg) as (ts1 & A1). destruct (moves_restore _ _ s s1 r s' I A1 E) as [_ A]. exists []. exact A.
    - injection E as _ <-. exact (moves_gntc c Hc s _ s1 I Eg).
    - injection E as _ <-. exact (moves_gntc c Hc s _ s1 I Eg).
  Qed.

  Lemma moves_ts_items spec c : c_fileid c = O -> Forall D (map tg_item spec) -> forall n acc, moves (taggedstruct_items rec n spec c acc).
  Proof.
    intros Hc Hd. induction n as [|n IH]; intros acc; cbn [taggedstruct_items]; [mv|].
    apply moves_bind; [apply moves_tagged_item; assumption|]. intros [[inc line uid so eo tag data isb]|]; [apply IH | mv].
  Qed.

  Lemma moves_item_step ty c : c_fileid c = O -> Forall D (subs ty) -> moves (item_step rec ty c).
  Proof.
    intros Hc Hd.
    assert (Hd' : forall spec, Forall D (map (fun t => match t with Tagged _ _ _ i => i end) spec) -> Forall D (map tg_item spec)).
    { intros spec H. rewrite Forall_forall in *. intros x Hx. apply H. apply in_map_iff in Hx. destruct Hx as (t0 & <- & Ht0).
      apply in_map_iff. exists t0. destruct t0; auto. }
    destruct ty; cbn [item_step subs] in *; try (unfold int_item; mv; fail).
    - destruct ty; try (apply moves_bind; [apply moves_array_items; [exact Hc | inversion Hd; assumption] | intros; mv]). mv.
    - apply moves_bind; [apply moves_struct_items; assumption | intros; mv].
    - apply moves_bind; [mv|]. intros n. apply moves_bind; [apply moves_seq_items; [exact Hc | inversion Hd; assumption] | intros; mv].
    - apply moves_bind; [mv|]. intros n. apply moves_bind; [apply moves_ts_items; [exact Hc | exact (Hd' _ Hd)] | intros; mv].
    - apply moves_bind; [apply moves_tagged_item; [exact Hc | exact (Hd' _ Hd)]|]. intros [[inc line uid so eo tag data isb]|]; mv.
  Qed.
End Moves.

Theorem moves_parse_ifdata_item : forall f ty c, c_fileid c = O -> ty_depth ty <= f -> moves (parse_ifdata_item f ty c).
Proof.
  induction f as [|f IH]; intros ty c Hc Hd.
  - exfalso. destruct ty; cbn [ty_depth] in Hd; lia.
  - cbn [parse_ifdata_item]. apply (moves_item_step (parse_ifdata_item f) (fun t => ty_depth t <= f)).
    + intros ty0 c0 Hc0 H0. exact (IH ty0 c0 Hc0 H0).
    + exact Hc.
    + apply subs_depth. exact Hd.
Qed.

(* ---------- the trace of a clean successful run ---------- *)
Lemma off_inv {A} (m : M A) (k : A -> N -> gifd) s g s' :
  (x <-- m ;; off <-- get_line_offset ;; ret (k x off)) s = (ROk g, s') ->
  exists x s1 off, m s = (ROk x, s1) /\ g = k x off /\ (Inv s1 -> s' = s1).
Proof.
  intros E. destruct (bind_ok_inv _ _ _ _ _ E) as (x & s1 & E1 & E2). destruct (bind_ok_inv _ _ _ _ _ E2) as (off & s2 & G & E3).
  injection E3 as <- <-. exists x, s1, off. repeat split; [exact E1|]. intros I1. symmetry. destruct (glo_fine s1 I1) as (o & G'). congruence.
Qed.

Lemma Forall2_app_both {A B} (R : A -> B -> Prop) a1 a2 b1 b2 : Forall2 R a1 b1 -> Forall2 R a2 b2 -> Forall2 R (a1 ++ a2) (b1 ++ b2).
Proof. intros H1 H2. apply Forall2_app; assumption. Qed.

Section Trace.
  Variable ftab : list fentry.
  Notation ftoks := (ftoks ftab).
  Notation itoks := (itoks ftab).

  Definition reads_all (ts : list token) (ws : list shape) : Prop := Forall2 (reads_as ftab) ts ws.

  (* a successful run that leaves the log as it was has read exactly the tokens of the value it returns *)
  Definition tr (m : M gifd) : Prop :=
    forall s g s', Inv s -> ps_ftab s = ftab -> m s = (ROk g, s') -> ps_log s' = ps_log s ->
    exists ts, adv ts s s' /\ reads_all ts (ftoks g).

  Lemma tr_int variant t c : c_fileid c = O -> gint_ity variant = t -> tr (int_item variant t c).
  Proof.
    intros Hc Hv s g s' I Hf E L. unfold int_item in E.
    destruct (off_inv _ (fun r o => GInt variant o (fst r) (snd r)) _ _ _ E) as (x & s1 & off & E1 & -> & Hs).
    destruct (get_integer_inv c Hc t s x s1 I E1) as (tk & r & Ea & Ht & Hg & A1).
    rewrite (Hs (adv_inv _ _ _ I A1)). exists [tk]. split; [exact A1|]. cbn [IfdataFollowProofs.ftoks].
    constructor; [|constructor]. split; [exact Ht|]. cbn [fst snd]. left. exists t, (fst x), (snd x). rewrite Hv. destruct x; auto.
  Qed.

  Section Rec.
    Variable rec : a2mlty -> ctx -> M gifd.
    Variable D : a2mlty -> Prop.
    Hypothesis Hcs : forall ty c, csim (rec ty c).
    Hypothesis Hsm : forall ty c, smono (rec ty c).
    Hypothesis Hmv : forall ty c, c_fileid c = O -> D ty -> moves (rec ty c).
    Hypothesis Htr : forall ty c, c_fileid c = O -> D ty -> tr (rec ty c).
    Hint Resolve Hcs : csim.
    Hint Resolve Hsm : smono.

    Lemma csim_array_items ty c : forall n, csim (array_items rec n ty c).
    Proof. induction n as [|n IH]; cbn [array_items]; cs. Qed.
    Lemma csim_struct_items c : forall tys, csim (struct_items rec tys c).
    Proof. induction tys as [|ty r IH]; cbn [struct_items]; cs. Qed.
    Hint Resolve csim_array_items csim_struct_items : csim.

    Lemma tr_array_items ty c : c_fileid c = O -> D ty -> forall n s l s', Inv s -> ps_ftab s = ftab ->
      array_items rec n ty c s = (ROk l, s') -> ps_log s' = ps_log s -> exists ts, adv ts s s' /\ reads_all ts (flat_map ftoks l).
    Proof.
      intros Hc Hd. induction n as [|n IH]; intros s l s' I Hf E L; cbn [array_items] in E.
      - injection E as <- <-. exists []. split; [apply adv_refl, (inv_pos s I) | constructor].
      - apply bind_clean_inv in E; [|cs|intro; cs|exact L]. destruct E as (x & s1 & E1 & L1 & E2 & L2).
        destruct (Htr ty c Hc Hd s x s1 I Hf E1 L1) as (ts1 & A1 & R1).
        apply bind_clean_inv in E2; [|cs|intro; cs|exact L2].
        destruct E2 as (r & s2 & E3 & L3 & E4 & _). injection E4 as <- <-.
        destruct (IH s1 r s2 (adv_inv _ _ _ I A1) (ftab_of _ _ _ _ Hf A1) E3 L3) as (ts2 & A2 & R2).
        exists (ts1 ++ ts2). split; [exact (adv_trans _ _ _ _ _ A1 A2)|]. cbn [flat_map]. apply Forall2_app_both; assumption.
    Qed.

    Lemma tr_struct_items c : c_fileid c = O -> forall tys, Forall D tys -> forall s l s', Inv s -> ps_ftab s = ftab ->
      struct_items rec tys c s = (ROk l, s') -> ps_log s' = ps_log s -> exists ts, adv ts s s' /\ reads_all ts (flat_map ftoks l).
    Proof.
      intros Hc. induction tys as [|ty tys IH]; intros Hd s l s' I Hf E L; cbn [struct_items] in E.
      - injection E as <- <-. exists []. split; [apply adv_refl, (inv_pos s I) | constructor].
      - inversion Hd as [|? ? D1 D2]; subst.
        apply bind_clean_inv in E; [|cs|intro; cs|exact L].
        destruct E as (x & s1 & E1 & L1 & E2 & L2).
        destruct (Htr ty c Hc D1 s x s1 I Hf E1 L1) as (ts1 & A1 & R1).
        apply bind_clean_inv in E2; [|cs|intro; cs|exact L2].
        destruct E2 as (r & s2 & E3 & L3 & E4 & _). injection E4 as <- <-.
        destruct (IH D2 s1 r s2 (adv_inv _ _ _ I A1) (ftab_of _ _ _ _ Hf A1) E3 L3) as (ts2 & A2 & R2).
        exists (ts1 ++ ts2). split; [exact (adv_trans _ _ _ _ _ A1 A2)|]. cbn [flat_map]. apply Forall2_app_both; assumption.
    Qed.

    Lemma csim_seq_items ty c : forall n acc, csim (seq_items rec n ty c acc).
    Proof. induction n as [|n IH]; intros acc; cbn [seq_items]; cs. Qed.

    Lemma tr_seq_items ty c : c_fileid c = O -> D ty -> forall n acc s l s', Inv s -> ps_ftab s = ftab ->
      seq_items rec n ty c acc s = (ROk l, s') -> ps_log s' = ps_log s ->
      exists ts l', l = acc ++ l' /\ adv ts s s' /\ reads_all ts (flat_map ftoks l').
    Proof.
      intros Hc Hd. induction n as [|n IH]; intros acc s l s' I Hf E L; cbn [seq_items] in E; [discriminate|].
      rewrite bind_tokenpos in E.
      apply bind_clean_inv in E; [|cs| |exact L].
      2:{ intros [[a|] d]; [|cs]. apply csim_bind; [cs|]. intros pos. destruct (Nat.eqb pos (ps_pos s)); [cs | apply csim_seq_items]. }
      destruct E as (x & s1 & E1 & L1 & E2 & L2).
      destruct (try_clean_inv _ _ _ _ (Hcs ty c) E1 L1) as [(a & Er & ->)|(d & Er & ->)].
      - rewrite bind_tokenpos in E2. destruct (Hmv ty c Hc Hd s _ s1 I Er) as (tsm & Am).
        destruct (Nat.eqb (ps_pos s1) (ps_pos s)).
        + destruct (restore_inv acc l tsm s s1 s' I Am E2) as [-> A]. exists [], []. rewrite app_nil_r. split; [reflexivity|]. split; [exact A | constructor].
        + destruct (Htr ty c Hc Hd s a s1 I Hf Er L1) as (ts1 & A1 & R1).
          destruct (IH (acc ++ [a]) s1 l s' (adv_inv _ _ _ I A1) (ftab_of _ _ _ _ Hf A1) E2 L2) as (ts2 & l2 & -> & A2 & R2).
          exists (ts1 ++ ts2), (a :: l2). rewrite <- app_assoc. split; [reflexivity|]. split; [exact (adv_trans _ _ _ _ _ A1 A2)|].
          cbn [flat_map]. apply Forall2_app_both; assumption.
      - destruct (Hmv ty c Hc Hd s _ s1 I Er) as (tsm & Am).
        destruct (restore_inv acc l tsm s s1 s' I Am E2) as [-> A]. exists [], []. rewrite app_nil_r. split; [reflexivity|]. split; [exact A | constructor].
    Qed.

    (* ---------- one tagged item ---------- *)
    Definition ti_uid (t : gtitem) : N := match t with GTI _ _ uid _ _ _ _ _ => uid end.

    Lemma csim_tagged_item' spec c : csim (tagged_item rec spec c).
    Proof. apply csim_tagged_item. exact Hcs. Qed.
    Hint Resolve csim_tagged_item' : csim.

    Lemma tr_tagged_item spec c : c_fileid c = O -> Forall D (map tg_item spec) -> forall s r s', Inv s -> ps_ftab s = ftab ->
      tagged_item rec spec c s = (ROk r, s') -> ps_log s' = ps_log s ->
      match r with
      | None => adv [] s s'
      | Some t => exists ts, adv ts s s' /\ reads_all ts (itoks (ti_info t)) /\ (ps_seq s < ti_uid t)%N /\ (ti_uid t <= ps_seq s')%N
      end.
    Proof.
      intros Hc Hd s r s' I Hf E L. unfold tagged_item in E. rewrite bind_tokenpos, bind_remaining in E.
      rewrite (bind_ok _ _ _ _ _ (skip_comments_none c _ s I)) in E.
      apply bind_clean_inv in E; [|cs|intros [[[token isb so|cm off|]|] dd]; cbv zeta; cs|exact L].
      destruct E as (x & s1 & E1 & L1 & E2 & L2).
      assert (Back : forall ts1, adv ts1 s s1 -> (set_tokenpos (ps_pos s) ;;; ret (@None gtitem)) s1 = (ROk r, s') -> match r with None => adv [] s s' | Some _ => False end).
      { intros ts1 A1 X. destruct (restore_inv None r ts1 s s1 s' I A1 X) as [-> A]. exact A. }
      assert (Fin : match r with None => adv [] s s' | Some _ => False end ->
                    match r with None => adv [] s s'
                            | Some t => exists ts, adv ts s s' /\ reads_all ts (itoks (ti_info t)) /\ (ps_seq s < ti_uid t)%N /\ (ti_uid t <= ps_seq s')%N end)
        by (destruct r; [intros [] | auto]).
      assert (Hgsm : forall bc, get_next_tag_or_comment c s = (bc, s1) -> (ps_seq s <= ps_seq s1)%N)
        by (intros bc X; exact (smono_get_next_tag_or_comment c s bc s1 X)).
      destruct (try_clean_inv (get_next_tag_or_comment c) _ _ _ ltac:(cs) E1 L1) as [(bc & Eg & ->)|(d & Eg & ->)].
      2:{ destruct (moves_gntc c Hc s _ s1 I Eg) as (ts1 & A1). exact (Fin (Back ts1 A1 E2)). }
      destruct (next_tag_inv c Hc s bc s1 I Eg) as [(tB & tI & r0 & off & Ha & HB & HI & -> & A1)|[(tI & r0 & off & Ha & HI & -> & A1)|(-> & A1)]].
      - (* /begin TAG *)
        cbv zeta in E2. destruct (find_tagged spec (tk_text tI)) as [tsp|] eqn:Ef; [|exact (Fin (Back _ A1 E2))].
        destruct (negb (Bool.eqb (tg_block tsp) true)); [exact (Fin (Back _ A1 E2))|].
        assert (Hnc : c_fileid (ctx_from_token (tk_text tI) tI) = O).
        { cbn. destruct (tok_ok_in s tI I) as (Q & _); [rewrite Ha; right; left; reflexivity | exact Q]. }
        assert (Dt : D (tg_item tsp)).
        { destruct (find_tagged_in _ _ _ Ef) as (Hin & _). rewrite Forall_forall in Hd. apply Hd. apply in_map. exact Hin. }
        set (newc := ctx_from_token (tk_text tI) tI) in *.
        assert (I1 : Inv s1) by (eapply adv_inv; eassumption).
        apply bind_clean_inv in E2; [|cs|intro; cs|exact L2]. destruct E2 as (uid & s2 & E3 & L3 & E4 & L4).
        assert (Hu : uid = (ps_seq s1 + 1)%N /\ ps_seq s2 = uid /\ adv [] s1 s2).
        { unfold get_next_id in E3. injection E3 as <- <-. split; [reflexivity|]. split; [reflexivity|].
          constructor; [reflexivity | reflexivity | constructor; reflexivity | exact (inv_pos s1 I1)]. }
        destruct Hu as (Hu1 & Hu2 & A2). assert (I2 : Inv s2) by (eapply adv_inv; eassumption).
        apply bind_clean_inv in E4; [|cs|intro; cs|exact L4]. destruct E4 as (data & s3 & E5 & L5 & E6 & L6).
        destruct (Htr (tg_item tsp) newc Hnc Dt s2 data s3 I2 (ftab_of _ _ _ _ (ftab_of _ _ _ _ Hf A1) A2) E5 L5) as (tsd & A3 & Rd).
        assert (I3 : Inv s3) by (eapply adv_inv; eassumption).
        rewrite Hnc, bind_incfile in E6.
        apply bind_clean_inv in E6; [|cs|intro; cs|exact L6]. destruct E6 as (eo & s4 & E7 & L7 & E8 & _).
        rewrite bind_incfile in E8. injection E8 as <- <-.
        assert (Hs34 : (ps_seq s3 <= ps_seq s4)%N).
        { match type of E7 with ?m s3 = _ => assert (Sm : smono m) by sm end. exact (Sm s3 _ s4 E7). }
        destruct (bind_ok_inv _ _ _ _ _ E7) as (tE & s3a & X1 & E7a).
        destruct (expect_inv newc Hnc TEnd s3 tE s3a I3 X1) as (r3 & Ea3 & HtE & A4).
        assert (I3a : Inv s3a) by (eapply adv_inv; eassumption).
        destruct (bind_ok_inv _ _ _ _ _ E7a) as (eo' & s3b & G & E7b). rewrite (glo_inv s3a eo' s3b I3a G) in *. clear G.
        destruct (bind_ok_inv _ _ _ _ _ E7b) as (tI2 & s3c & X2 & E7c).
        destruct (expect_inv newc Hnc TIdentifier s3a tI2 s3c I3a X2) as (r4 & Ea4 & HtI2 & A5).
        destruct (bytes_eqb (tk_text tI2) (tk_text tI)) eqn:Eq; [|destruct (diag_fail_not_ok _ _ _ _ _ _ E7c)].
        injection E7c as _ <-. apply MergeProofs.bytes_eqb_eq in Eq.
        exists ([tB; tI] ++ tsd ++ [tE; tI2]). split; [|split].
        + pose proof (adv_trans _ _ _ _ _ (adv_trans _ _ _ _ _ (adv_trans _ _ _ _ _ (adv_trans _ _ _ _ _ A1 A2) A3) A4) A5) as Q.
          cbn [app] in Q. rewrite <- app_assoc in Q. exact Q.
        + unfold IfdataFollowProofs.itoks. cbn [ti_info gmap item_toks]. rewrite ftoks_make_block.
          constructor; [split; [exact HB | exact Logic.I]|]. constructor; [split; [exact HI | reflexivity]|].
          apply Forall2_app_both; [exact Rd|]. constructor; [split; [exact HtE | exact Logic.I]|]. constructor; [split; [exact HtI2 | exact Eq] | constructor].
        + cbn [ti_uid]. pose proof (Hgsm _ Eg) as Q1. pose proof (Hsm _ _ s2 _ s3 E5) as Q2. split; lia.
      - (* TAG *)
        cbv zeta in E2. destruct (find_tagged spec (tk_text tI)) as [tsp|] eqn:Ef; [|exact (Fin (Back _ A1 E2))].
        destruct (negb (Bool.eqb (tg_block tsp) false)); [exact (Fin (Back _ A1 E2))|].
        assert (Hnc : c_fileid (ctx_from_token (tk_text tI) tI) = O).
        { cbn. destruct (tok_ok_in s tI I) as (Q & _); [rewrite Ha; left; reflexivity | exact Q]. }
        assert (Dt : D (tg_item tsp)).
        { destruct (find_tagged_in _ _ _ Ef) as (Hin & _). rewrite Forall_forall in Hd. apply Hd. apply in_map. exact Hin. }
        set (newc := ctx_from_token (tk_text tI) tI) in *.
        assert (I1 : Inv s1) by (eapply adv_inv; eassumption).
        apply bind_clean_inv in E2; [|cs|intro; cs|exact L2]. destruct E2 as (uid & s2 & E3 & L3 & E4 & L4).
        assert (Hu : uid = (ps_seq s1 + 1)%N /\ ps_seq s2 = uid /\ adv [] s1 s2).
        { unfold get_next_id in E3. injection E3 as <- <-. split; [reflexivity|]. split; [reflexivity|].
          constructor; [reflexivity | reflexivity | constructor; reflexivity | exact (inv_pos s1 I1)]. }
        destruct Hu as (Hu1 & Hu2 & A2). assert (I2 : Inv s2) by (eapply adv_inv; eassumption).
        apply bind_clean_inv in E4; [|cs|intro; cs|exact L4]. destruct E4 as (data & s3 & E5 & L5 & E6 & L6).
        destruct (Htr (tg_item tsp) newc Hnc Dt s2 data s3 I2 (ftab_of _ _ _ _ (ftab_of _ _ _ _ Hf A1) A2) E5 L5) as (tsd & A3 & Rd).
        rewrite Hnc, bind_incfile, bind_ret, bind_incfile in E6. injection E6 as <- <-.
        exists ([tI] ++ tsd). split; [|split].
        + exact (adv_trans _ _ _ _ _ (adv_trans _ _ _ _ _ A1 A2) A3).
        + unfold IfdataFollowProofs.itoks. cbn [ti_info gmap item_toks]. rewrite ftoks_make_block.
          constructor; [split; [exact HI | reflexivity] | exact Rd].
        + cbn [ti_uid]. pose proof (Hgsm _ Eg) as Q1. pose proof (Hsm _ _ s2 _ s3 E5) as Q2. split; lia.
      - exact (Fin (Back _ A1 E2)).
    Qed.

    (* ---------- the loop over the items of a tagged struct ---------- *)
    Fixpoint uchain (lo : N) (R : list gtitem) : Prop :=
      match R with [] => True | t :: r => (lo < ti_uid t)%N /\ uchain (ti_uid t) r end.
    Lemma uchain_weaken R : forall lo lo', (lo <= lo')%N -> uchain lo' R -> uchain lo R.
    Proof. destruct R as [|t r]; intros lo lo' H; cbn [uchain]; [auto|]. intros [H1 H2]. split; [lia | exact H2]. Qed.

    Lemma csim_ts_items spec c : forall n acc, csim (taggedstruct_items rec n spec c acc).
    Proof. induction n as [|n IH]; intros acc; cbn [taggedstruct_items]; cs. Qed.

    Lemma tr_ts_items spec c : c_fileid c = O -> Forall D (map tg_item spec) -> forall n acc s acc' s', Inv s -> ps_ftab s = ftab ->
      taggedstruct_items rec n spec c acc s = (ROk acc', s') -> ps_log s' = ps_log s ->
      exists ts R, adv ts s s' /\ acc' = fold_left (fun a t => assoc_push (ti_tag t) t a) R acc /\
                   reads_all ts (flat_map itoks (map ti_info R)) /\ uchain (ps_seq s) R.
    Proof.
      intros Hc Hd. induction n as [|n IH]; intros acc s acc' s' I Hf E L; cbn [taggedstruct_items] in E; [discriminate|].
      apply bind_clean_inv in E; [|cs| |exact L].
      2:{ intros [[inc line uid so eo tag data isb]|]; [apply csim_ts_items | cs]. }
      destruct E as (r & s1 & E1 & L1 & E2 & L2).
      pose proof (tr_tagged_item spec c Hc Hd s r s1 I Hf E1 L1) as T.
      destruct r as [t|].
      - destruct T as (ts1 & A1 & R1 & U1 & U2). destruct t as [inc line uid so eo tag data isb].
        destruct (IH _ s1 acc' s' (adv_inv _ _ _ I A1) (ftab_of _ _ _ _ Hf A1) E2 L2) as (ts2 & R2 & A2 & -> & RR & UU).
        exists (ts1 ++ ts2), (GTI inc line uid so eo tag data isb :: R2).
        split; [exact (adv_trans _ _ _ _ _ A1 A2)|]. split; [reflexivity|]. split.
        + cbn [map flat_map]. apply Forall2_app_both; assumption.
        + cbn [uchain]. split; [exact U1|]. exact (uchain_weaken R2 _ _ U2 UU).
      - injection E2 as <- <-. exists [], []. split; [exact T|]. split; [reflexivity|]. split; [constructor | exact Logic.I].
    Qed.

    (* ---------- the group writer prints the items in the order in which they were read ---------- *)
    Lemma flat_assoc_push k v : forall l,
      Permutation (flat_map (fun kv : bytes * list gtitem => map ti_info (snd kv)) (assoc_push k v l))
                  (flat_map (fun kv : bytes * list gtitem => map ti_info (snd kv)) l ++ [ti_info v]).
    Proof.
      induction l as [|[k' vs] r IH]; cbn [assoc_push flat_map snd map app]; [reflexivity|].
      destruct (bytes_eqb k k'); cbn [flat_map snd].
      - rewrite map_app. cbn [map]. rewrite <- !app_assoc. apply Permutation_app_head. apply Permutation_app_comm.
      - rewrite <- app_assoc. apply Permutation_app_head. exact IH.
    Qed.

    Lemma flat_regroup R : forall acc,
      Permutation (flat_map (fun kv : bytes * list gtitem => map ti_info (snd kv)) (fold_left (fun a t => assoc_push (ti_tag t) t a) R acc))
                  (flat_map (fun kv : bytes * list gtitem => map ti_info (snd kv)) acc ++ map ti_info R).
    Proof.
      induction R as [|t r IH]; intros acc; cbn [fold_left map]; [rewrite app_nil_r; reflexivity|].
      eapply Permutation_trans; [apply IH|]. eapply Permutation_trans; [apply Permutation_app_tail, flat_assoc_push|].
      rewrite <- app_assoc. reflexivity.
    Qed.

    Lemma ti_info_uid t : g_uid (ti_info t) = ti_uid t.
    Proof. destruct t; reflexivity. Qed.
    Lemma ti_info_pos t : g_pos (ti_info t) = None.
    Proof. destruct t; reflexivity. Qed.

    Lemma uchain_sorted R : forall lo, uchain lo R -> StronglySorted (@id_lt gifd) (map ti_info R) /\ Forall (fun t => (lo < ti_uid t)%N) R.
    Proof.
      induction R as [|t r IH]; intros lo H; cbn [map]; [split; constructor|]. cbn [uchain] in H. destruct H as [H1 H2].
      destruct (IH _ H2) as [S1 F1]. split.
      - constructor; [exact S1|]. apply Forall_forall. intros g Hg. apply in_map_iff in Hg. destruct Hg as (t2 & <- & Hin).
        unfold id_lt. rewrite !ti_info_uid. rewrite Forall_forall in F1. specialize (F1 t2 Hin). split; lia.
      - constructor; [exact H1|]. eapply Forall_impl; [|exact F1]. cbv beta. intros; lia.
    Qed.

    Lemma no_positions (G : list (ginfo gifd)) : Forall (fun g => g_pos g = None) G -> apply_position_restrictions G = G.
    Proof.
      intros H. unfold apply_position_restrictions.
      assert (E : filter (fun g : ginfo gifd => match g_pos g with Some _ => true | None => false end) G = []).
      { induction H as [|g r Hg _ IH]; [reflexivity|]. cbn [filter]. rewrite Hg. exact IH. }
      rewrite E. reflexivity.
    Qed.

    Lemma witems_regroup R lo : uchain lo R -> witems (regroup R) = map ti_info R.
    Proof.
      intros H. unfold witems, group_order, regroup.
      set (G := flat_map (fun kv : bytes * list gtitem => map ti_info (snd kv)) (fold_left (fun acc t => assoc_push (ti_tag t) t acc) R [])).
      assert (Hp : Permutation G (map ti_info R)) by (exact (flat_regroup R [])).
      rewrite no_positions.
      - apply sorted_unique.
        + eapply Permutation_trans; [apply ssort_perm | exact Hp].
        + apply ssort_strongly_sorted; [apply sort_leb_total | apply sort_leb_trans].
        + exact (proj1 (uchain_sorted R lo H)).
      - apply Forall_forall. intros g Hg. assert (Hin : In g (map ti_info R)).
        { eapply Permutation_in; [exact Hp|]. eapply Permutation_in; [apply ssort_perm | exact Hg]. }
        apply in_map_iff in Hin. destruct Hin as (t & <- & _). apply ti_info_pos.
    Qed.

    (* ---------- one step of the typed parser ---------- *)
    Lemma tr_item_step ty c : c_fileid c = O -> Forall D (subs ty) -> tr (item_step rec ty c).
    Proof.
      intros Hc Hd.
      assert (Hd' : forall spec, Forall D (map (fun t => match t with Tagged _ _ _ i => i end) spec) -> Forall D (map tg_item spec)).
      { intros spec H. rewrite Forall_forall in *. intros x Hx. apply H. apply in_map_iff in Hx. destruct Hx as (t0 & <- & Ht0).
        apply in_map_iff. exists t0. destruct t0; auto. }
      destruct ty; cbn [item_step subs] in *; try (apply tr_int; [exact Hc | reflexivity]).
      - (* TNone *) intros s g s' I Hf E L. injection E as <- <-. exists []. split; [apply adv_refl, (inv_pos s I) | constructor].
      - (* float *) intros s g s' I Hf E L.
        destruct (off_inv _ (fun v o => GFloat o v) _ _ _ E) as (x & s1 & off & E1 & -> & Hs).
        destruct (get_float_inv c Hc ftab s x s1 I Hf E1) as (tk & r & Ea & Ht & Hg & A1).
        rewrite (Hs (adv_inv _ _ _ I A1)). exists [tk]. split; [exact A1|]. cbn [IfdataFollowProofs.ftoks].
        constructor; [|constructor]. split; [exact Ht|]. cbn [fst snd]. right. exists x. auto.
      - (* double *) intros s g s' I Hf E L.
        destruct (off_inv _ (fun v o => GDouble o v) _ _ _ E) as (x & s1 & off & E1 & -> & Hs).
        destruct (get_double_inv c Hc ftab s x s1 I Hf E1) as (tk & r & Ea & Ht & Hg & A1).
        rewrite (Hs (adv_inv _ _ _ I A1)). exists [tk]. split; [exact A1|]. cbn [IfdataFollowProofs.ftoks].
        constructor; [|constructor]. split; [exact Ht|]. cbn [fst snd]. right. exists x. auto.
      - (* arrays and strings *)
        assert (Harr : D ty -> tr (l <-- array_items rec dim ty c ;; ret (GArray l))).
        { intros Dt s g s' I Hf E L. destruct (bind_ok_inv _ _ _ _ _ E) as (l & s1 & E1 & E2). injection E2 as <- <-.
          destruct (tr_array_items ty c Hc Dt dim s l s1 I Hf E1 L) as (ts & A & R). exists ts. split; [exact A | exact R]. }
        inversion Hd as [|? ? Dt _]; subst.
        destruct ty; try exact (Harr Dt).
        intros s g s' I Hf E L.
        destruct (off_inv _ (fun v o => GString o v) _ _ _ E) as (x & s1 & off & E1 & -> & Hs).
        destruct (moves_get_string_maxlen c dim s _ s1 I E1) as (tsm & Am).
        pose proof (Hs (adv_inv _ _ _ I Am)) as Es. subst s'.
        destruct (get_string_maxlen_inv c Hc dim s x s1 I E1 L) as (tk & r & Ea & Ht & Hx & A1).
        exists [tk]. split; [exact A1|]. cbn [IfdataFollowProofs.ftoks]. constructor; [|constructor]. split; [exact Ht|]. cbn [fst snd]. rewrite Hx. reflexivity.
      - (* enums *) intros s g s' I Hf E L.
        destruct (bind_ok_inv _ _ _ _ _ E) as (e & s1 & E1 & E2).
        destruct (get_identifier_inv c Hc s e s1 I E1) as (tk & r & Ea & Ht & Hx & A1).
        destruct (bind_ok_inv _ _ _ _ _ E2) as (off & s2 & G & E3). rewrite (glo_inv s1 off s2 (adv_inv _ _ _ I A1) G) in *.
        destruct (enum_has items e); [|destruct (diag_fail_not_ok _ _ _ _ _ _ E3)]. injection E3 as <- <-.
        exists [tk]. split; [exact A1|]. cbn [IfdataFollowProofs.ftoks]. constructor; [|constructor]. split; [exact Ht|]. cbn [fst snd]. symmetry. exact Hx.
      - (* structs *) intros s g s' I Hf E L.
        destruct (bind_ok_inv _ _ _ _ _ E) as (l & s1 & E1 & E2). rewrite Hc, bind_incfile in E2. injection E2 as <- <-.
        destruct (tr_struct_items c Hc items Hd s l s1 I Hf E1 L) as (ts & A & R). exists ts. split; [exact A | exact R].
      - (* sequences *) intros s g s' I Hf E L. rewrite bind_remaining in E.
        destruct (bind_ok_inv _ _ _ _ _ E) as (l & s1 & E1 & E2). injection E2 as <- <-. inversion Hd as [|? ? Dt _]; subst.
        destruct (tr_seq_items ty c Hc Dt _ [] s l s1 I Hf E1 L) as (ts & l' & -> & A & R). exists ts. split; [exact A | exact R].
      - (* tagged structs *) intros s g s' I Hf E L. rewrite bind_remaining in E.
        destruct (bind_ok_inv _ _ _ _ _ E) as (acc' & s1 & E1 & E2). injection E2 as <- <-.
        destruct (tr_ts_items items c Hc (Hd' _ Hd) _ [] s acc' s1 I Hf E1 L) as (ts & R & A & -> & RR & U).
        exists ts. split; [exact A|].
        change (IfdataFollowProofs.ftoks ftab (GTaggedStruct (fold_left (fun a t => assoc_push (ti_tag t) t a) R [])))
          with (flat_map item_toks (group_order (flat_map (fun kv => map (ti_toks ftab) (snd kv)) (regroup R)))).
        rewrite ftoks_tagged, (witems_regroup R _ U). exact RR.
      - (* tagged unions *) intros s g s' I Hf E L.
        apply bind_clean_inv in E; [|cs|intros [[inc line uid so eo tag data isb]|]; cs|exact L]. destruct E as (r & s1 & E1 & L1 & E2 & _).
        pose proof (tr_tagged_item items c Hc (Hd' _ Hd) s r s1 I Hf E1 L1) as T.
        destruct r as [t|].
        + destruct T as (ts1 & A1 & R1 & _). destruct t as [inc line uid so eo tag data isb]. injection E2 as <- <-.
          exists ts1. split; [exact A1|].
          assert (Et : IfdataFollowProofs.ftoks ftab (GTaggedUnion [(tag, [GTI inc line uid so eo tag data isb])]) = itoks (ti_info (GTI inc line uid so eo tag data isb)))
            by (cbn; rewrite ?app_nil_r; reflexivity).
          rewrite Et. exact R1.
        + injection E2 as <- <-. exists []. split; [exact T|]. change (IfdataFollowProofs.ftoks ftab (GTaggedUnion [])) with (@nil shape). constructor.
    Qed.
  End Rec.

  (** a clean successful run of the typed IF_DATA parser has read exactly the tokens that the writer prints for its result *)
  Theorem typed_ifdata_is_written_as_it_was_read : forall f ty c, c_fileid c = O -> ty_depth ty <= f -> tr (parse_ifdata_item f ty c).
  Proof.
    induction f as [|f IH]; intros ty c Hc Hd.
    - exfalso. destruct ty; cbn [ty_depth] in Hd; lia.
    - cbn [parse_ifdata_item]. apply (tr_item_step (parse_ifdata_item f) (fun t => ty_depth t <= f)).
      + intros ty0 c0. apply csim_parse_ifdata_item.
      + intros ty0 c0. apply smono_parse_ifdata_item.
      + intros ty0 c0 Hc0 H0. exact (moves_parse_ifdata_item f ty0 c0 Hc0 H0).
      + intros ty0 c0 Hc0 H0. exact (IH ty0 c0 Hc0 H0).
      + exact Hc.
      + apply subs_depth. exact Hd.
  Qed.
End Trace.

(* ---------- the whole IF_DATA content: the definitions tried in order ---------- *)
Section Block.
  Variable ftab : list fentry.

  Lemma csim_from_spec sp c : csim (parse_ifdata_from_spec sp c).
  Proof. unfold parse_ifdata_from_spec. cs. Qed.

  Lemma tr_from_spec sp c : c_fileid c = O -> forall s r s', Inv s -> ps_ftab s = ftab ->
    parse_ifdata_from_spec sp c s = (ROk r, s') -> ps_log s' = ps_log s ->
    match r with
    | None => adv [] s s'
    | Some gb => exists ts, adv ts s s' /\ reads_all ftab ts (ftoks ftab gb)
    end.
  Proof.
    intros Hc s r s' I Hf E L. unfold parse_ifdata_from_spec in E. rewrite bind_tokenpos in E.
    apply bind_clean_inv in E; [|cs|intros [[g|] d]; cs|exact L]. destruct E as (x & s1 & E1 & L1 & E2 & L2).
    assert (Back : forall ts1 s2, adv ts1 s s2 -> (set_tokenpos (ps_pos s) ;;; ret (@None gifd)) s2 = (ROk r, s') ->
              match r with None => adv [] s s' | Some gb => exists ts, adv ts s s' /\ reads_all ftab ts (ftoks ftab gb) end).
    { intros ts1 s2 A1 X. destruct (restore_inv None r ts1 s s2 s' I A1 X) as [-> A]. exact A. }
    destruct (try_clean_inv (parse_ifdata_item (S (ty_depth sp)) sp c) _ _ _ ltac:(cs) E1 L1) as [(g & Er & ->)|(d & Er & ->)].
    2:{ destruct (moves_parse_ifdata_item (S (ty_depth sp)) sp c Hc ltac:(lia) s _ s1 I Er) as (ts1 & A1). exact (Back ts1 s1 A1 E2). }
    destruct (typed_ifdata_is_written_as_it_was_read ftab (S (ty_depth sp)) sp c Hc ltac:(lia) s g s1 I Hf Er L1) as (ts1 & A1 & R1).
    assert (I1 : Inv s1) by (eapply adv_inv; eassumption).
    rewrite bind_remaining in E2. rewrite (bind_ok _ _ _ _ _ (try_ok _ _ _ _ (skip_comments_none c _ s1 I1))) in E2.
    unfold peek_token at 1 in E2. unfold bindM at 1 in E2.
    destruct (ps_after s1) as [|t rest]; [exact (Back ts1 s1 A1 E2)|].
    destruct (ttype_eqb (tk_type t) TEnd); [|exact (Back ts1 s1 A1 E2)].
    rewrite Hc, bind_incfile in E2. injection E2 as <- <-. exists ts1. split; [exact A1|]. rewrite ftoks_make_block. exact R1.
  Qed.

  Lemma tr_first_spec c : c_fileid c = O -> forall specs s r s', Inv s -> ps_ftab s = ftab ->
    first_spec specs c s = (ROk r, s') -> ps_log s' = ps_log s ->
    match r with
    | None => adv [] s s'
    | Some gb => exists ts, adv ts s s' /\ reads_all ftab ts (ftoks ftab gb)
    end.
  Proof.
    intros Hc. induction specs as [|sp specs IH]; intros s r s' I Hf E L; cbn [first_spec] in E.
    - injection E as <- <-. apply adv_refl, (inv_pos s I).
    - apply bind_clean_inv in E; [|apply csim_from_spec| |exact L].
      2:{ intros [x|]; [cs|]. clear. induction specs as [|sp' r' IHr]; cbn [first_spec]; [cs|]. apply csim_bind; [apply csim_from_spec|]. intros [x|]; [cs | exact IHr]. }
      destruct E as (x & s1 & E1 & L1 & E2 & L2).
      pose proof (tr_from_spec sp c Hc s x s1 I Hf E1 L1) as T. destruct x as [gb|].
      + injection E2 as <- <-. exact T.
      + pose proof (IH s1 r s' (adv_inv _ _ _ I T) (ftab_of _ _ _ _ Hf T) E2 L2) as T2. destruct r as [gb|].
        * destruct T2 as (ts & A2 & R2). exists ts. split; [exact (adv_trans _ _ _ _ _ T A2) | exact R2].
        * exact (adv_trans _ _ _ _ _ T T2).
  Qed.

  (** an IF_DATA block that is marked valid is written as it was read: the content tokens in front of its /end are the tokens of its items *)
  Theorem valid_ifdata_is_written_as_it_was_read specs fuel c : c_fileid c = O -> forall s gb s', Inv s -> ps_ftab s = ftab ->
    parse_ifdata specs fuel c s = (ROk (Some gb, true), s') -> ps_log s' = ps_log s ->
    exists ts, adv ts s s' /\ reads_all ftab ts (ftoks ftab gb).
  Proof.
    intros Hc s gb s' I Hf E L. unfold parse_ifdata in E. rewrite bind_remaining in E.
    rewrite (bind_ok _ _ _ _ _ (skip_comments_none c _ s I)) in E. unfold peek_token at 1 in E. unfold bindM at 1 in E.
    destruct (ps_after s) as [|t rest]; [discriminate|].
    destruct (first_spec specs c s) as [[[x|]|d|p|] s1] eqn:Ef; cbn [bindM] in E; unfold bindM in E; rewrite Ef in E; try discriminate.
    - injection E as <- <-. exact (tr_first_spec c Hc specs s (Some x) s1 I Hf Ef L).
    - exfalso. destruct (ttype_eqb (tk_type t) TEnd); [discriminate|].
      destruct (unknown_ifdata_start fuel c s1) as [[g|d|p|] s2]; discriminate.
  Qed.
End Block.
Print Assumptions moves_parse_ifdata_item.
Print Assumptions typed_ifdata_is_written_as_it_was_read.
Print Assumptions valid_ifdata_is_written_as_it_was_read.
