(** The values the typed IF_DATA parser returns have the shape [wfw] (Proofs/IfdataWriteAnyProofs.v): tagged items carry no include
    attribution (their tag token belongs to the file that is being read), their content is a block, lists hold no block.  With it
    the writer theorems apply to whatever the parser returned - no conformance premise. *)
From Coq Require Import Ascii String List Bool Arith NArith ZArith Lia.
From A2L Require Import Base.StableSort Text.Escape Text.IntText Lex.Tokenizer Gram.Spec A2ml.Types Gram.PState Gram.Parser Gram.Writer Gram.TokWriter
  Proofs.CursorProofs Proofs.RoundTripProofs Proofs.ParseTraceProofs Proofs.TerminationProofs Proofs.IfdataFollowProofs Proofs.IfdataTextProofs
  Proofs.IfdataTraceProofs Proofs.IfdataWriteAnyProofs.
Import ListNotations.

Lemma make_block_wfd g i l : wfw g -> wfd (make_block g i l).
Proof.
  intros H. destruct H; cbn [make_block]; try (apply wfd_block; constructor; [constructor; assumption | constructor]);
    try (apply wfd_block; constructor; [constructor | constructor]).
  apply wfd_block. assumption.
Qed.

Lemma assoc_push_wf k t : wfi t -> forall l, Forall (fun kv : bytes * list gtitem => Forall wfi (snd kv)) l ->
  Forall (fun kv : bytes * list gtitem => Forall wfi (snd kv)) (assoc_push k t l).
Proof.
  intros Ht. induction l as [|[k' vs] r IH]; intros H; cbn [assoc_push].
  - constructor; [cbn [snd]; constructor; [exact Ht | constructor] | constructor].
  - inversion H as [|? ? H1 H2]; subst. destruct (bytes_eqb k k').
    + constructor; [cbn [snd] in *; apply Forall_app; split; [exact H1 | constructor; [exact Ht | constructor]] | exact H2].
    + constructor; [exact H1 | apply IH; exact H2].
Qed.

Definition wtr (m : M gifd) : Prop := forall s g s', Inv s -> m s = (ROk g, s') -> wfw g.

Section Rec.
  Variable rec : a2mlty -> ctx -> M gifd.
  Variable D : a2mlty -> Prop.
  Hypothesis Hmv : forall ty c, c_fileid c = O -> D ty -> moves (rec ty c).
  Hypothesis Hw : forall ty c, c_fileid c = O -> D ty -> wtr (rec ty c).

  Lemma wf_array_items ty c : c_fileid c = O -> D ty -> forall n s l s', Inv s -> array_items rec n ty c s = (ROk l, s') -> Forall wfw l.
  Proof.
    intros Hc Hd. induction n as [|n IH]; intros s l s' I E; cbn [array_items] in E.
    - injection E as <- _. constructor.
    - destruct (bind_ok_inv _ _ _ _ _ E) as (x & s1 & E1 & E2). destruct (bind_ok_inv _ _ _ _ _ E2) as (r & s2 & E3 & E4). injection E4 as <- _.
      destruct (Hmv ty c Hc Hd s _ s1 I E1) as (t1 & A1).
      constructor; [exact (Hw ty c Hc Hd s x s1 I E1) | exact (IH s1 r s2 (adv_inv _ _ _ I A1) E3)].
  Qed.

  Lemma wf_struct_items c : c_fileid c = O -> forall tys, Forall D tys -> forall s l s', Inv s -> struct_items rec tys c s = (ROk l, s') -> Forall wfw l.
  Proof.
    intros Hc. induction tys as [|ty tys IH]; intros Hd s l s' I E; cbn [struct_items] in E.
    - injection E as <- _. constructor.
    - inversion Hd as [|? ? D1 D2]; subst.
      destruct (bind_ok_inv _ _ _ _ _ E) as (x & s1 & E1 & E2). destruct (bind_ok_inv _ _ _ _ _ E2) as (r & s2 & E3 & E4). injection E4 as <- _.
      destruct (Hmv ty c Hc D1 s _ s1 I E1) as (t1 & A1).
      constructor; [exact (Hw ty c Hc D1 s x s1 I E1) | exact (IH D2 s1 r s2 (adv_inv _ _ _ I A1) E3)].
  Qed.

  Lemma wf_seq_items ty c : c_fileid c = O -> D ty -> forall n acc s l s', Inv s -> Forall wfw acc ->
    seq_items rec n ty c acc s = (ROk l, s') -> Forall wfw l.
  Proof.
    intros Hc Hd. induction n as [|n IH]; intros acc s l s' I Ha E; cbn [seq_items] in E; [discriminate|].
    rewrite bind_tokenpos in E. unfold bindM at 1 in E. unfold try in E.
    destruct (rec ty c s) as [[g|d|x|] s1] eqn:Er; try discriminate; destruct (Hmv ty c Hc Hd s _ s1 I Er) as (ts1 & A1).
    - rewrite bind_tokenpos in E. destruct (Nat.eqb (ps_pos s1) (ps_pos s)).
      + destruct (moves_restore acc ts1 s s1 _ s' I A1 E) as [X _]. injection X as <-. exact Ha.
      + apply (IH (acc ++ [g]) s1 l s' (adv_inv _ _ _ I A1)); [|exact E].
        apply Forall_app. split; [exact Ha | constructor; [exact (Hw ty c Hc Hd s g s1 I Er) | constructor]].
    - destruct (moves_restore acc ts1 s s1 _ s' I A1 E) as [X _]. injection X as <-. exact Ha.
  Qed.

  Lemma wf_tagged_item spec c : c_fileid c = O -> Forall D (map tg_item spec) -> forall s r s', Inv s ->
    tagged_item rec spec c s = (ROk r, s') -> match r with Some t => wfi t | None => True end.
  Proof.
    intros Hc Hd s r s' I E. unfold tagged_item in E. rewrite bind_tokenpos, bind_remaining in E.
    rewrite (bind_ok _ _ _ _ _ (skip_comments_none c _ s I)) in E. unfold bindM at 1 in E. unfold try in E.
    assert (Back : forall ts1 s1, adv ts1 s s1 -> (set_tokenpos (ps_pos s) ;;; ret (@None gtitem)) s1 = (ROk r, s') -> match r with Some t => wfi t | None => True end).
    { intros ts1 s1 A1 X. destruct (moves_restore _ ts1 s s1 _ s' I A1 X) as [Q _]. injection Q as ->. exact Logic.I. }
    destruct (get_next_tag_or_comment c s) as [[bc|d|x|] s1] eqn:Eg; try discriminate.
    2:{ destruct (moves_gntc c Hc s _ s1 I Eg) as (ts1 & A1). exact (Back ts1 s1 A1 E). }
    assert (Item : forall tI isb so, In tI (ps_after s) -> forall tsg, adv tsg s s1 ->
              (let tag := tk_text tI in let newc := ctx_from_token tag tI in
               match find_tagged spec tag with
               | Some ts =>
                   if negb (Bool.eqb (tg_block ts) isb) then set_tokenpos (ps_pos s) ;;; ret None
                   else
                     uid <-- get_next_id ;; data <-- rec (tg_item ts) newc ;; inc0 <-- get_incfilename (c_fileid newc) ;;
                     let parsed := make_block data inc0 (c_line newc) in
                     end_offset <-- (if isb then expect_token newc TEnd ;;; eo <-- get_line_offset ;; endident <-- expect_token newc TIdentifier ;;
                                                 if bytes_eqb (tk_text endident) tag then ret eo
                                                 else (d <-- mk_diag "IncorrectEndTag" newc (tk_text endident) ;; fail d)
                                     else ret 0%N) ;;
                     inc <-- get_incfilename (c_fileid newc) ;;
                     ret (Some (GTI inc (c_line newc) uid so end_offset tag parsed isb))
               | None => set_tokenpos (ps_pos s) ;;; ret None
               end) s1 = (ROk r, s') -> match r with Some t => wfi t | None => True end).
    { intros tI isb so Hin tsg A1 X. cbv zeta in X.
      destruct (find_tagged spec (tk_text tI)) as [tsp|] eqn:Ef; [|exact (Back tsg s1 A1 X)].
      destruct (negb (Bool.eqb (tg_block tsp) isb)); [exact (Back tsg s1 A1 X)|].
      assert (Hnc : c_fileid (ctx_from_token (tk_text tI) tI) = O) by (cbn; destruct (tok_ok_in s tI I Hin) as (Q & _); exact Q).
      assert (Dt : D (tg_item tsp)).
      { destruct (find_tagged_in _ _ _ Ef) as (Hi & _). rewrite Forall_forall in Hd. apply Hd. apply in_map. exact Hi. }
      assert (I1 : Inv s1) by (exact (adv_inv _ _ _ I A1)).
      destruct (bind_ok_inv _ _ _ _ _ X) as (uid & s2 & E3 & E4).
      assert (A2 : adv [] s1 s2).
      { unfold get_next_id in E3. injection E3 as _ <-. constructor; [reflexivity | reflexivity | constructor; reflexivity | exact (inv_pos s1 I1)]. }
      destruct (bind_ok_inv _ _ _ _ _ E4) as (data & s3 & E5 & E6).
      pose proof (Hw (tg_item tsp) _ Hnc Dt s2 data s3 (adv_inv _ _ _ I1 A2) E5) as Wd.
      rewrite Hnc, bind_incfile in E6. destruct (bind_ok_inv _ _ _ _ _ E6) as (eo & s4 & _ & E8). rewrite bind_incfile in E8. injection E8 as <- _.
      apply wf_item. apply make_block_wfd. exact Wd. }
    destruct (next_tag_inv c Hc s bc s1 I Eg) as [(tB & tI & r0 & off & Ha & HB & HI & -> & A1)|[(tI & r0 & off & Ha & HI & -> & A1)|(-> & A1)]].
    - apply (Item tI true off ltac:(rewrite Ha; right; left; reflexivity) _ A1). exact E.
    - apply (Item tI false off ltac:(rewrite Ha; left; reflexivity) _ A1). exact E.
    - exact (Back [] s1 A1 E).
  Qed.

  Lemma wf_ts_items spec c : c_fileid c = O -> Forall D (map tg_item spec) -> forall n acc s acc' s', Inv s ->
    Forall (fun kv : bytes * list gtitem => Forall wfi (snd kv)) acc ->
    taggedstruct_items rec n spec c acc s = (ROk acc', s') -> Forall (fun kv : bytes * list gtitem => Forall wfi (snd kv)) acc'.
  Proof.
    intros Hc Hd. induction n as [|n IH]; intros acc s acc' s' I Ha E; cbn [taggedstruct_items] in E; [discriminate|].
    destruct (bind_ok_inv _ _ _ _ _ E) as (r & s1 & E1 & E2).
    pose proof (wf_tagged_item spec c Hc Hd s r s1 I E1) as Wr.
    assert (Mv : exists t1, adv t1 s s1).
    { assert (M0 : moves (tagged_item rec spec c)) by (apply (moves_tagged_item rec D Hmv); assumption). exact (M0 s _ s1 I E1). }
    destruct Mv as (t1 & A1).
    destruct r as [[inc line uid so eo tag data isb]|].
    - apply (IH (assoc_push tag (GTI inc line uid so eo tag data isb) acc) s1 acc' s' (adv_inv _ _ _ I A1)); [|exact E2]. apply assoc_push_wf; assumption.
    - injection E2 as <- _. exact Ha.
  Qed.

  Lemma wf_item_step ty c : c_fileid c = O -> Forall D (subs ty) -> wtr (item_step rec ty c).
  Proof.
    intros Hc Hd.
    assert (Hd' : forall spec, Forall D (map (fun t => match t with Tagged _ _ _ i => i end) spec) -> Forall D (map tg_item spec)).
    { intros spec H. rewrite Forall_forall in *. intros x Hx. apply H. apply in_map_iff in Hx. destruct Hx as (t0 & <- & Ht0).
      apply in_map_iff. exists t0. destruct t0; auto. }
    assert (Hint : forall v t, wtr (int_item v t c)).
    { intros v t s g s' I E. unfold int_item in E. destruct (off_inv _ (fun r o => GInt v o (fst r) (snd r)) _ _ _ E) as (x & s1 & off & _ & -> & _). constructor. }
    destruct ty; cbn [item_step subs] in *; try apply Hint.
    - intros s g s' I E. injection E as <- _. constructor.
    - intros s g s' I E. destruct (off_inv _ (fun v o => GFloat o v) _ _ _ E) as (x & s1 & off & _ & -> & _). constructor.
    - intros s g s' I E. destruct (off_inv _ (fun v o => GDouble o v) _ _ _ E) as (x & s1 & off & _ & -> & _). constructor.
    - assert (Harr : D ty -> wtr (l <-- array_items rec dim ty c ;; ret (GArray l))).
      { intros Dt s g s' I E. destruct (bind_ok_inv _ _ _ _ _ E) as (l & s1 & E1 & E2). injection E2 as <- _.
        constructor. exact (wf_array_items ty c Hc Dt dim s l s1 I E1). }
      inversion Hd as [|? ? Dt _]; subst. destruct ty; try exact (Harr Dt).
      intros s g s' I E. destruct (off_inv _ (fun v o => GString o v) _ _ _ E) as (x & s1 & off & _ & -> & _). constructor.
    - intros s g s' I E. destruct (bind_ok_inv _ _ _ _ _ E) as (e & s1 & E1 & E2). destruct (bind_ok_inv _ _ _ _ _ E2) as (off & s2 & G & E3).
      destruct (enum_has items e); [|destruct (diag_fail_not_ok _ _ _ _ _ _ E3)]. injection E3 as <- _. constructor.
    - intros s g s' I E. destruct (bind_ok_inv _ _ _ _ _ E) as (l & s1 & E1 & E2). rewrite Hc, bind_incfile in E2. injection E2 as <- _.
      constructor. exact (wf_struct_items c Hc items Hd s l s1 I E1).
    - intros s g s' I E. rewrite bind_remaining in E. destruct (bind_ok_inv _ _ _ _ _ E) as (l & s1 & E1 & E2). injection E2 as <- _.
      inversion Hd as [|? ? Dt _]; subst. constructor. exact (wf_seq_items ty c Hc Dt _ [] s l s1 I (Forall_nil _) E1).
    - intros s g s' I E. rewrite bind_remaining in E. destruct (bind_ok_inv _ _ _ _ _ E) as (acc' & s1 & E1 & E2). injection E2 as <- _.
      constructor. exact (wf_ts_items items c Hc (Hd' _ Hd) _ [] s acc' s1 I (Forall_nil _) E1).
    - intros s g s' I E. destruct (bind_ok_inv _ _ _ _ _ E) as (r & s1 & E1 & E2).
      pose proof (wf_tagged_item items c Hc (Hd' _ Hd) s r s1 I E1) as Wr.
      destruct r as [[inc line uid so eo tag data isb]|]; injection E2 as <- _; constructor.
      + constructor; [cbn [snd]; constructor; [exact Wr | constructor] | constructor].
      + constructor.
  Qed.
End Rec.

(** whatever the typed IF_DATA parser returns has the shape the writer theorems need *)
Theorem typed_ifdata_result_shape : forall f ty c, c_fileid c = O -> ty_depth ty <= f -> wtr (parse_ifdata_item f ty c).
Proof.
  induction f as [|f IH]; intros ty c Hc Hd.
  - exfalso. destruct ty; cbn [ty_depth] in Hd; lia.
  - cbn [parse_ifdata_item]. apply (wf_item_step (parse_ifdata_item f) (fun t => ty_depth t <= f)).
    + intros ty0 c0 Hc0 H0. exact (moves_parse_ifdata_item f ty0 c0 Hc0 H0).
    + intros ty0 c0 Hc0 H0. exact (IH ty0 c0 Hc0 H0).
    + exact Hc.
    + apply subs_depth. exact Hd.
Qed.
Print Assumptions typed_ifdata_result_shape.
