(** Proofs about Lib/Limits.v (C12).
    Part 1: structural statements for all floats (what the calculated range is, per conversion kind).
    Part 2: the float classification agrees with exact rational arithmetic on the whole coefficient /
            data type / limit-placement grid of the property (a finite domain, decided inside the kernel
            by vm_compute and lifted with forallb_forall). *)
From Coq Require Import ZArith QArith Floats List Bool Lia.
From A2L Require Import Lib.Limits.
Import ListNotations.

(* ---------------- Part 1 ---------------- *)
Lemma calc_identity_kinds d c :
  c = CNone \/ c = CIdentical \/ c = CTabIntp \/ c = CTabNointp \/ c = CTabVerb \/ c = CLinear None \/ c = CRatFunc None ->
  calc_compu_method_limits c d = get_datatype_limits d.
Proof.
  intros H. unfold calc_compu_method_limits. destruct (get_datatype_limits d) as [lo hi].
  repeat (destruct H as [-> | H]; [reflexivity|]). subst; reflexivity.
Qed.

Lemma calc_unevaluated d c :
  c = CForm \/ (exists a b c0 d0 e f, c = CRatFunc (Some (a, b, c0, d0, e, f)) /\
                 ((a =? 0) && (d0 =? 0) && (e =? 0) && negb (f =? 0))%float = false) ->
  calc_compu_method_limits c d = ((- f64_max)%float, f64_max).
Proof.
  intros [-> | (a & b & c0 & d0 & e & f & -> & H)]; unfold calc_compu_method_limits;
    destruct (get_datatype_limits d) as [lo hi]; [reflexivity|]. rewrite H. reflexivity.
Qed.

Lemma calc_linear d a b :
  calc_compu_method_limits (CLinear (Some (a, b))) d =
  let '(lo, hi) := get_datatype_limits d in
  if (0 <=? a)%float then ((a * lo + b)%float, (a * hi + b)%float)
  else ((a * hi + b)%float, (a * lo + b)%float).
Proof. unfold calc_compu_method_limits. destruct (get_datatype_limits d). reflexivity. Qed.

Lemma calc_ratfunc_linear d b c f :
  (f =? 0)%float = false ->
  calc_compu_method_limits (CRatFunc (Some (0%float, b, c, 0%float, 0%float, f))) d =
  let '(lo, hi) := get_datatype_limits d in
  let g := fun y => (f * (y / b) - c / b)%float in
  if (g hi <? g lo)%float then (g hi, g lo) else (g lo, g hi).
Proof.
  intros Hf. unfold calc_compu_method_limits. destruct (get_datatype_limits d) as [lo hi].
  replace ((0 =? 0)%float) with true by (vm_compute; reflexivity). rewrite Hf. reflexivity.
Qed.

(* ---------------- Part 2: exact rational reference ---------------- *)
Definition Q_of_float (x : float) : option Q :=
  match Prim2SF x with
  | S754_zero _ => Some 0%Q
  | S754_finite s m e =>
      let v := match e with
               | Zneg p => (Zpos m # (2 ^ p))%Q
               | _ => inject_Z (Zpos m * 2 ^ e)
               end in
      Some (if s then Qopp v else v)
  | _ => None
  end.

Definition Qltb (a b : Q) : bool := negb (Qle_bool b a).
Definition Qabs' (a : Q) : Q := if Qle_bool 0 a then a else Qopp a.
Definition Qmin' (a b : Q) : Q := if Qle_bool a b then a else b.
Definition Qmax' (a b : Q) : Q := if Qle_bool a b then b else a.

(* declared bound is "clearly" away from the exact bound: by at least 1e-4 relative (or absolute when the bound is 0) *)
Definition clearly_apart (decl exact : Q) : bool :=
  let diff := Qabs' (decl - exact) in
  Qle_bool (Qmax' (Qabs' exact) 1 * (1 # 10000)) diff.

Definition exact_linear (a b lo hi : Q) : Q * Q :=
  let x := (a * lo + b)%Q in let y := (a * hi + b)%Q in (Qmin' x y, Qmax' x y).
(* RAT_FUNC with a = d = e = 0: INT = (b*PHYS + c)/f, inverted: PHYS = (f*INT - c)/b *)
Definition exact_ratfunc (b c f lo hi : Q) : Q * Q :=
  let x := ((f * lo - c) / b)%Q in let y := ((f * hi - c) / b)%Q in (Qmin' x y, Qmax' x y).

Inductive place := PInside | PLowOut | PHighOut | PBothOut.

(* declared limits built from the calculated float range [lo_c, hi_c] *)
Definition declared (p : place) (lo_c hi_c : float) : float * float :=
  let w := (hi_c - lo_c)%float in
  let q := (w * 0.25)%float in
  let pad := (abs lo_c * 0.015625 + abs hi_c * 0.015625 + q + 1)%float in
  match p with
  | PInside => ((lo_c + q)%float, (hi_c - q)%float)
  | PLowOut => ((lo_c - pad)%float, (hi_c - q)%float)
  | PHighOut => ((lo_c + q)%float, (hi_c + pad)%float)
  | PBothOut => ((lo_c - pad)%float, (hi_c + pad)%float)
  end.

Definition all_dtypes := [Ubyte; Sbyte; Uword; Sword; Ulong; Slong; AUint64; AInt64; Float16Ieee; Float32Ieee; Float64Ieee].
Definition all_places := [PInside; PLowOut; PHighOut; PBothOut].
Definition grid_a : list float :=
  [0x1p-20; 0x1p-10; 0.5; 1; 3; 1000; 0x1p20; -0x1p-20; -0x1p-10; -0.5; -1; -3; -1000; -0x1p20]%float.
Definition grid_b : list float := [0; 1; -1; 100.5; -100.5; 0x1p20; -0x1p20; 0x1p-20; -0x1p-20]%float.
(* the four kinds that use the tolerant comparison share one model function; one of them plus the
   tolerance-free TYPEDEF_MEASUREMENT span the grid *)
Definition grid_k := [KMeasurement; KTypedefMeasurement].

(* one grid point: if everything involved is finite and the declared limits are clearly inside / outside the
   EXACT range, then the float check reports an error exactly when a declared limit lies outside it *)
Definition case_ok (k : okind) (c : conv) (d : dtype) (exact : Q -> Q -> option (Q * Q)) (p : place) : bool :=
  let '(lo_r, hi_r) := get_datatype_limits d in
  let '(lo_c, hi_c) := calc_compu_method_limits c d in
  let '(lo_d, hi_d) := declared p lo_c hi_c in
  match Q_of_float lo_r, Q_of_float hi_r, Q_of_float lo_c, Q_of_float hi_c, Q_of_float lo_d, Q_of_float hi_d with
  | Some qlo_r, Some qhi_r, Some _, Some _, Some qlo_d, Some qhi_d =>
      match exact qlo_r qhi_r with
      | Some (elo, ehi) =>
          if clearly_apart qlo_d elo && clearly_apart qhi_d ehi then
            Bool.eqb (limit_error k (lo_d, hi_d) c d) (Qltb qlo_d elo || Qltb ehi qhi_d)
          else true
      | None => true
      end
  | _, _, _, _, _, _ => true   (* an overflow to infinity: outside the grid's claim *)
  end.

Definition counted (k : okind) (c : conv) (d : dtype) (exact : Q -> Q -> option (Q * Q)) (p : place) : bool :=
  let '(lo_r, hi_r) := get_datatype_limits d in
  let '(lo_c, hi_c) := calc_compu_method_limits c d in
  let '(lo_d, hi_d) := declared p lo_c hi_c in
  match Q_of_float lo_r, Q_of_float hi_r, Q_of_float lo_c, Q_of_float hi_c, Q_of_float lo_d, Q_of_float hi_d with
  | Some qlo_r, Some qhi_r, Some _, Some _, Some qlo_d, Some qhi_d =>
      match exact qlo_r qhi_r with
      | Some (elo, ehi) => clearly_apart qlo_d elo && clearly_apart qhi_d ehi
      | None => false
      end
  | _, _, _, _, _, _ => false
  end.

Definition linear_cases : list (okind * float * float * dtype * place) :=
  flat_map (fun k => flat_map (fun a => flat_map (fun b => flat_map (fun d => map (fun p => (k, a, b, d, p)) all_places)
    all_dtypes) grid_b) grid_a) grid_k.

Definition linear_ok (x : okind * float * float * dtype * place) : bool :=
  let '(k, a, b, d, p) := x in
  match Q_of_float a, Q_of_float b with
  | Some qa, Some qb => case_ok k (CLinear (Some (a, b))) d (fun lo hi => Some (exact_linear qa qb lo hi)) p
  | _, _ => true
  end.
Definition linear_counted (x : okind * float * float * dtype * place) : bool :=
  let '(k, a, b, d, p) := x in
  match Q_of_float a, Q_of_float b with
  | Some qa, Some qb => counted k (CLinear (Some (a, b))) d (fun lo hi => Some (exact_linear qa qb lo hi)) p
  | _, _ => false
  end.

Definition grid_rb : list float := [0x1p-10; 0.5; 1; 3; 1000; -0x1p-10; -0.5; -1; -3; -1000]%float.
Definition grid_rc : list float := [0; 1; -100.5; 0x1p20]%float.
Definition grid_rf : list float := [1; -1; 0.5; 1000; -0x1p-10]%float.
Definition ratfunc_cases : list (okind * float * float * float * dtype * place) :=
  flat_map (fun k => flat_map (fun b => flat_map (fun c => flat_map (fun f => flat_map (fun d =>
    map (fun p => (k, b, c, f, d, p)) all_places) all_dtypes) grid_rf) grid_rc) grid_rb) [KMeasurement; KTypedefMeasurement].
Definition ratfunc_ok (x : okind * float * float * float * dtype * place) : bool :=
  let '(k, b, c, f, d, p) := x in
  match Q_of_float b, Q_of_float c, Q_of_float f with
  | Some qb, Some qc, Some qf =>
      case_ok k (CRatFunc (Some (0%float, b, c, 0%float, 0%float, f))) d
              (fun lo hi => Some (exact_ratfunc qb qc qf lo hi)) p
  | _, _, _ => true
  end.
Definition ratfunc_counted (x : okind * float * float * float * dtype * place) : bool :=
  let '(k, b, c, f, d, p) := x in
  match Q_of_float b, Q_of_float c, Q_of_float f with
  | Some qb, Some qc, Some qf =>
      counted k (CRatFunc (Some (0%float, b, c, 0%float, 0%float, f))) d
              (fun lo hi => Some (exact_ratfunc qb qc qf lo hi)) p
  | _, _, _ => false
  end.

(* identity / table kinds: the physical range is the raw range *)
Definition ident_cases : list (okind * conv * dtype * place) :=
  flat_map (fun k => flat_map (fun c => flat_map (fun d => map (fun p => (k, c, d, p)) all_places) all_dtypes)
    [CNone; CIdentical; CTabIntp; CTabNointp; CTabVerb]) grid_k.
Definition ident_ok (x : okind * conv * dtype * place) : bool :=
  let '(k, c, d, p) := x in case_ok k c d (fun lo hi => Some (lo, hi)) p.

(* not evaluated: never an error, whatever finite limits are declared (on the grid of placements around the raw range) *)
Definition uneval_cases : list (okind * conv * dtype * place) :=
  flat_map (fun k => flat_map (fun c => flat_map (fun d => map (fun p => (k, c, d, p)) all_places) all_dtypes)
    [CForm; CRatFunc (Some (1, 2, 3, 0, 0, 1)%float); CRatFunc (Some (0, 2, 3, 1, 0, 1)%float);
     CRatFunc (Some (0, 2, 3, 0, 0, 0)%float)]) grid_k.
Definition uneval_ok (x : okind * conv * dtype * place) : bool :=
  let '(k, c, d, p) := x in
  let '(lo_r, hi_r) := get_datatype_limits d in
  let '(lo_d, hi_d) := declared p lo_r hi_r in
  match Q_of_float lo_d, Q_of_float hi_d with
  | Some _, Some _ => negb (limit_error k (lo_d, hi_d) c d)
  | _, _ => true
  end.

Lemma linear_grid_holds : forallb linear_ok linear_cases = true.
Proof. vm_compute. reflexivity. Qed.
Lemma ratfunc_grid_holds : forallb ratfunc_ok ratfunc_cases = true.
Proof. vm_compute. reflexivity. Qed.
Lemma ident_grid_holds : forallb ident_ok ident_cases = true.
Proof. vm_compute. reflexivity. Qed.
Lemma uneval_grid_holds : forallb uneval_ok uneval_cases = true.
Proof. vm_compute. reflexivity. Qed.

(* non-vacuity: how many grid points actually reach the comparison (finite, clearly placed) *)
Lemma linear_grid_counted : N.of_nat (length (filter linear_counted linear_cases)) = 10008%N.
Proof. vm_compute. reflexivity. Qed.
Lemma ratfunc_grid_counted : N.of_nat (length (filter ratfunc_counted ratfunc_cases)) = 15908%N.
Proof. vm_compute. reflexivity. Qed.

(* lifted forms *)
Lemma linear_grid_forall x : In x linear_cases -> linear_ok x = true.
Proof. intros H. pose proof linear_grid_holds as G. rewrite forallb_forall in G. apply G, H. Qed.
Lemma ratfunc_grid_forall x : In x ratfunc_cases -> ratfunc_ok x = true.
Proof. intros H. pose proof ratfunc_grid_holds as G. rewrite forallb_forall in G. apply G, H. Qed.
Lemma ident_grid_forall x : In x ident_cases -> ident_ok x = true.
Proof. intros H. pose proof ident_grid_holds as G. rewrite forallb_forall in G. apply G, H. Qed.
Lemma uneval_grid_forall x : In x uneval_cases -> uneval_ok x = true.
Proof. intros H. pose proof uneval_grid_holds as G. rewrite forallb_forall in G. apply G, H. Qed.
