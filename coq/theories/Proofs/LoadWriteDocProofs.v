(** C02 for a whole document: parse_file (version lines, the root element, the check for trailing tokens) on the token
    list of a file.  If it succeeds without a single warning, every token of the file was consumed and the token list
    is, token by token, what the writer prints for the model. *)
From Coq Require Import Ascii String List Bool NArith ZArith Lia Sorting.Sorted.
From A2L Require Import Base.StableSort Text.Escape Text.IntText Lex.Tokenizer Gram.Spec A2ml.Types Gram.PState Gram.Parser
  Gram.Writer Gram.TokWriter Proofs.CursorProofs Proofs.StrictWholeProofs Proofs.SeqMonoProofs Proofs.LayoutProofs
  Proofs.RoundTripProofs Proofs.LineOffsetProofs Proofs.ParseTraceProofs.
Import ListNotations.
Local Open Scope N_scope.

Lemma upd_ver_inv s v : Inv s -> Inv (upd_ver s v).
Proof. intros [i1 i2 i3 i4 i5 i6 i7]. constructor; assumption. Qed.

Section Doc.
  Variable S : spec.
  Variable posrs : list (string * posr).
  Variable ftab : list fentry.
  Hypothesis Hspec : spec_ok S = true.
  (* the element that carries the version is read by plain field readers only *)
  Hypothesis Hver : forall td, lookup_ty S "Asap2Version" = Some td -> fields_only S td = true.

  Ltac side := first [ solve [cs] | solve [cs; apply csim_error_or_log; reflexivity] ].

  (* a version that is read without a warning leaves the cursor where it was *)
  Lemma parse_version_clean fuel c s v s1 : c_fileid c = O -> Inv s -> ps_pos s = O ->
    parse_version fuel S c s = (ROk v, s1) -> ps_log s1 = ps_log s ->
    ps_after s1 = ps_after s /\ Inv s1 /\ ps_ftab s1 = ps_ftab s /\ (first_ok s -> first_ok s1).
  Proof.
    intros Hc I Hpos E L. unfold parse_version in E.
    apply bind_clean_inv in E; [|side|intro; side|exact L]. destruct E as (pk & s0 & E0 & _ & E & L0).
    unfold peek_token in E0. injection E0 as <- <-.
    assert (Bad : forall (m : M unit) (k : M version) sa sb x, csim m -> csim k ->
              (set_tokenpos 0 ;;; error_or_log missing_version ;;; k) sa = (ROk x, sb) -> (exists l, ps_log sa = l ++ ps_log s) ->
              ps_log sb = ps_log s -> False).
    { intros _ k sa sb x _ Hk X (l0 & Hl0) Lb.
      destruct (bind_ok_inv _ _ _ _ _ X) as (u1 & sc & X1 & X2). destruct (bind_ok_inv _ _ _ _ _ X2) as (u2 & sd & X3 & X4).
      assert (Lc : ps_log sc = ps_log sa).
      { unfold set_tokenpos in X1. destruct (if Nat.leb 0 (ps_pos sa) then _ else _) as [bb aa]. injection X1 as _ <-. reflexivity. }
      unfold error_or_log in X3. destruct (ps_strict sc); [discriminate|]. injection X3 as _ <-.
      destruct (log_grows k Hk _ _ _ X4) as (l1 & Hl1). cbn [ps_log upd_log] in Hl1. rewrite Lc, Hl0, Lb in Hl1.
      apply (f_equal (@length diag)) in Hl1. rewrite ?app_length in Hl1. cbn [length] in Hl1. rewrite ?app_length in Hl1. lia. }
    destruct (ps_after s) as [|token rest] eqn:Ea.
    { exfalso. apply (Bad (ret tt) (ret V151) s s1 v ltac:(cs) ltac:(cs) E); [exists []; reflexivity | exact L]. }
    apply bind_clean_inv in E; [|side|intro; side|exact L0]. destruct E as (ident & sa & Ea1 & La & E & La').
    destruct ident as [[id|] dg].
    2:{ exfalso. apply (Bad (ret tt) (ret V151) sa s1 v ltac:(cs) ltac:(cs) E); [exists []; rewrite La; reflexivity | exact L]. }
    destruct (bytes_eqb id (bytes_of "ASAP2_VERSION")).
    2:{ exfalso. apply (Bad (ret tt) (ret V151) sa s1 v ltac:(cs) ltac:(cs) E); [exists []; rewrite La; reflexivity | exact L]. }
    destruct (lookup_ty S "Asap2Version") as [td|] eqn:Ltd; [|discriminate].
    (* the cursor after the two attempts *)
    unfold try in Ea1. destruct (get_identifier c s) as [r0 sa0] eqn:Gi.
    destruct (moves_get_identifier c s r0 sa0 I Gi) as (t1 & A1).
    assert (sa0 = sa) by (destruct r0; inversion Ea1; reflexivity). subst sa0.
    apply bind_clean_inv in E; [|side|intro; side|exact La']. destruct E as (r & sb & Eb & Lb & E & Lb').
    unfold try in Eb. destruct (parse_ty fuel S 0 td (ctx_from_token [] token) 0 sa) as [r1 sb0] eqn:Pv.
    destruct (fields_only_moves S fuel 0 td (ctx_from_token [] token) 0 (Hver td eq_refl) sa r1 sb0 (adv_inv _ _ _ I A1) Pv) as (t2 & A2).
    assert (sb0 = sb) by (destruct r1; inversion Eb; reflexivity). subst sb0.
    destruct (bind_ok_inv _ _ _ _ _ E) as (u & sc & X1 & X2).
    pose proof (adv_trans _ _ _ _ _ A1 A2) as A12.
    destruct (set_tokenpos_back _ s sb A12 (inv_pos s I)) as (sc' & X1' & A3). rewrite Hpos in X1'. rewrite X1' in X1. injection X1 as _ <-.
    assert (Lc : ps_log s1 = ps_log sc').
    { rewrite Lb'. unfold set_tokenpos in X1'. destruct (if Nat.leb 0 (ps_pos sb) then _ else _) as [bb aa]. injection X1' as <-. reflexivity. }
    assert (Hsame : s1 = sc').
    { clear - X2 Lc.
      repeat match type of X2 with context [match ?x with _ => _ end] => destruct x end;
        first [ injection X2 as _ <-; reflexivity
              | exfalso; destruct (bind_ok_inv _ _ _ _ _ X2) as (u2 & sd & X3 & X4); injection X4 as _ <-;
                exact (eol_not_clean _ _ _ _ X3 Lc) ]. }
    subst s1. pose proof A3 as A4.
    split; [pose proof (adv_after _ _ _ A4) as Q; cbn [app] in Q; rewrite <- Q; exact Ea|]. split; [exact (adv_inv _ _ _ I A4)|].
    split; [exact (se_ftab _ _ (adv_static _ _ _ A4))|]. intros H. exact (first_ok_adv _ _ _ A4 H).
  Qed.

  Theorem document_tokens_are_written toks td v s' :
    forallb tok_okb toks = true -> toks <> [] -> StronglySorted (fun a b => tk_line a <= tk_line b) toks ->
    lookup_ty S "A2lFile" = Some td -> t_special td = None ->
    parse_file S (init_state toks false 1 ftab) = (ROk v, s') -> ps_log s' = [] ->
    good S posrs (Datatypes.S (Datatypes.S (length toks))) td v ->
    ps_after s' = [] /\
    traced ftab toks (wtoks S posrs ftab (Datatypes.S (Datatypes.S (length toks))) v ++ closing (is_blockb td) (bytes_of "A2L_FILE")).
  Proof.
    intros Hok Hne Hs Ltd Hsp E L Hg.
    set (s0 := init_state toks false 1 ftab) in *.
    assert (I0 : Inv s0) by (apply init_inv; assumption).
    unfold parse_file in E. cbv zeta in E. cbn [ps_after s0 init_state] in E.
    set (fuel := Datatypes.S (Datatypes.S (length toks))) in *.
    set (c := mkCtx (bytes_of "A2L_FILE") 0 (match toks with t :: _ => tk_line t | [] => 1 end)) in *.
    assert (L' : ps_log s' = ps_log s0) by exact L.
    apply bind_clean_inv in E; [|cs|intro; cs|exact L']. destruct E as (ver & s1 & E1 & L1 & E & L1').
    destruct (parse_version_clean fuel c s0 ver s1 eq_refl I0 eq_refl E1 L1) as (Ha1 & I1 & Hf1 & Hfo1).
    apply bind_clean_inv in E; [|cs|intro; cs|exact L1']. destruct E as (u & s2 & E2 & L2 & E & L2').
    unfold set_file_version in E2. injection E2 as _ <-.
    rewrite Ltd in E.
    apply bind_clean_inv in E; [|cs|intro; cs|exact L2']. destruct E as (file & s3 & E3 & L3 & E & L3').
    assert (I2 : Inv (upd_ver s1 ver)) by (apply upd_ver_inv; exact I1).
    assert (Hl : lookup_ty S (t_name td) = Some td) by exact (lookup_name _ _ _ Ltd).
    assert (Hgf : good S posrs fuel td file).
    { clear - E Hg. destruct (bind_ok_inv _ _ _ _ _ E) as (pk & s4 & _ & E4). destruct pk as [tk|].
      - destruct (bind_ok_inv _ _ _ _ _ E4) as (u2 & s5 & _ & E5). injection E5 as <- _. exact Hg.
      - injection E4 as <- _. exact Hg. }
    assert (Hfo2 : first_ok (upd_ver s1 ver)) by exact (Hfo1 (first_ok_init toks false 1 ftab)).
    destruct (parse_then_write S posrs ftab fuel Hspec fuel td c 0 (upd_ver s1 ver) file s3 eq_refl I2 Hfo2 Hf1 Hl Hsp E3 L3 Hgf)
      as (ts & A & T & _).
    pose proof (adv_after _ _ _ A) as Q. cbn [ps_after upd_ver] in Q. rewrite Ha1 in Q. cbn [ps_after s0 init_state] in Q.
    apply bind_clean_inv in E; [|cs|intro; cs|exact L3']. destruct E as (pk & s4 & E4 & L4 & E & L4').
    unfold peek_token in E4. injection E4 as <- <-.
    destruct (ps_after s3) as [|tk rest] eqn:Ea3.
    - injection E as <- <-. split; [exact Ea3|]. rewrite app_nil_r in Q. rewrite Q. exact T.
    - exfalso. destruct (bind_ok_inv _ _ _ _ _ E) as (u2 & s5 & E5 & E6). injection E6 as _ <-.
      destruct (Nat.ltb (tk_fileid tk) (ps_nfiles s3)); [|discriminate].
      exact (eol_not_clean _ _ _ _ E5 L4').
  Qed.
End Doc.
Print Assumptions document_tokens_are_written.
