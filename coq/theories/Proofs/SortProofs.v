(** Proofs about Lib/Sort.v (C14, C15). *)
From Coq Require Import String List ZArith Bool Lia Sorting.Sorted Permutation.
From A2L Require Import Base.Res Base.StrCmp Base.StableSort Lib.Sort.
Import ListNotations.
Local Open Scope Z_scope.
Arguments Z.mul : simpl never.
Arguments Z.add : simpl never.
Arguments Z.pow : simpl never.
Arguments Z.of_nat : simpl never.

(* ---------- the two comparators are total preorders ---------- *)
Definition le_named := leb_of cmp_named.
Definition le_writer := leb_of sort_function.

Lemma cul_total u1 l1 u2 l2 c12 c21 :
  c21 = CompOpp c12 ->
  (cmp_uid_line u1 l1 u2 l2 c12 <> Gt) \/ (cmp_uid_line u2 l2 u1 l1 c21 <> Gt).
Proof.
  intros ->. unfold cmp_uid_line.
  destruct (Z.eqb_spec u1 0), (Z.eqb_spec u2 0), (Z.eqb_spec u1 u2), (Z.eqb_spec u2 u1),
    (Z.eqb_spec l1 l2), (Z.eqb_spec l2 l1); simpl; try lia; try (left; discriminate); try (right; discriminate);
    try (destruct c12; simpl; (left; discriminate) || (right; discriminate)).
  all: try (destruct (Z.compare_spec l1 l2), (Z.compare_spec l2 l1); try lia; (left; discriminate) || (right; discriminate)).
  all: try (destruct (Z.compare_spec u1 u2), (Z.compare_spec u2 u1); try lia; (left; discriminate) || (right; discriminate)).
Qed.

Lemma cul_trans u1 l1 u2 l2 u3 l3 c12 c23 c13 :
  (c12 <> Gt -> c23 <> Gt -> c13 <> Gt) ->
  cmp_uid_line u1 l1 u2 l2 c12 <> Gt -> cmp_uid_line u2 l2 u3 l3 c23 <> Gt ->
  cmp_uid_line u1 l1 u3 l3 c13 <> Gt.
Proof.
  intros Hc. unfold cmp_uid_line.
  destruct (Z.eqb_spec u1 0), (Z.eqb_spec u2 0), (Z.eqb_spec u3 0), (Z.eqb_spec u1 u2), (Z.eqb_spec u2 u3),
    (Z.eqb_spec u1 u3), (Z.eqb_spec l1 l2), (Z.eqb_spec l2 l3), (Z.eqb_spec l1 l3); simpl; try lia; try congruence; auto.
  all: repeat match goal with
       | |- context [Z.compare ?a ?b] => destruct (Z.compare_spec a b)
       end; try lia; try congruence; auto.
Qed.

Lemma le_named_total a b : le_named a b = true \/ le_named b a = true.
Proof.
  unfold le_named, leb_of, cmp_named.
  destruct (cul_total (e_uid a) (e_line a) (e_uid b) (e_line b) (str_cmp (e_name a) (e_name b))
              (str_cmp (e_name b) (e_name a)) (str_cmp_antisym _ _)) as [H|H]; [left|right];
    match goal with |- match ?c with _ => _ end = true => destruct c; congruence end.
Qed.

Lemma le_writer_total a b : le_writer a b = true \/ le_writer b a = true.
Proof.
  unfold le_writer, leb_of, sort_function.
  destruct (cul_total (e_uid a) (e_line a) (e_uid b) (e_line b) (str_cmp (e_tag a) (e_tag b))
              (str_cmp (e_tag b) (e_tag a)) (str_cmp_antisym _ _)) as [H|H]; [left|right];
    match goal with |- match ?c with _ => _ end = true => destruct c; congruence end.
Qed.

Lemma str_cmp_trans_ngt a b c : str_cmp a b <> Gt -> str_cmp b c <> Gt -> str_cmp a c <> Gt.
Proof.
  intros H1 H2. pose proof (str_le_trans a b c) as T. unfold str_le in T.
  destruct (str_cmp a b), (str_cmp b c), (str_cmp a c); try congruence;
    try (specialize (T eq_refl eq_refl); discriminate).
Qed.

Lemma leb_of_true (c : el -> el -> comparison) a b : leb_of c a b = true <-> c a b <> Gt.
Proof. unfold leb_of. destruct (c a b); split; congruence. Qed.

Lemma le_named_trans a b c : le_named a b = true -> le_named b c = true -> le_named a c = true.
Proof.
  unfold le_named. rewrite !leb_of_true. unfold cmp_named. apply cul_trans. apply str_cmp_trans_ngt.
Qed.
Lemma le_writer_trans a b c : le_writer a b = true -> le_writer b c = true -> le_writer a c = true.
Proof.
  unfold le_writer. rewrite !leb_of_true. unfold sort_function. apply cul_trans. apply str_cmp_trans_ngt.
Qed.

Lemma name_leb_total a b : name_leb a b = true \/ name_leb b a = true.
Proof. apply str_le_total. Qed.
Lemma name_leb_trans a b c : name_leb a b = true -> name_leb b c = true -> name_leb a c = true.
Proof. apply str_le_trans. Qed.

(* ====================================================================== C15 *)
Definition placed (e : el) : Prop := e_uid e <> 0.
Definition isnew (e : el) : Prop := e_uid e = 0.
Definition fitsZ (u : Z) : Prop := 0 <= u /\ 2 * u + 1 < U32.
Definition fits (e : el) : Prop := fitsZ (e_uid e).

Definition dbl (e : el) : el := set_uid e (2 * e_uid e).
Definition assign (u : Z) (e : el) : el := set_layout e u 2 1.

Lemma mul2_fits debug u : fitsZ u -> mul2 debug u = Ok (2 * u).
Proof. intros [H1 H2]. unfold mul2. destruct (Z.ltb_spec (2 * u) U32); [reflexivity | lia]. Qed.
Lemma add1_fits debug u : fitsZ u -> add1 debug (2 * u) = Ok (2 * u + 1).
Proof. intros [H1 H2]. unfold add1. destruct (Z.ltb_spec (2 * u + 1) U32); [reflexivity | lia]. Qed.

(* uid that new elements receive after a run of placed elements *)
Fixpoint lastuid (p : list el) (last : Z) : Z :=
  match p with [] => last | e :: r => lastuid r (2 * e_uid e + 1) end.

Lemma sol_loop_prefix debug p z : forall last,
  Forall placed p -> Forall isnew z -> Forall fits (p ++ z) ->
  sol_new_loop debug (p ++ z) last = Ok (map dbl p ++ map (assign (lastuid p last)) z).
Proof.
  induction p as [|e r IH]; intros last Hp Hz Hf; simpl.
  - induction z as [|e r IHz]; simpl; [reflexivity|].
    inversion Hz as [|? ? He Hr]; subst. inversion Hf; subst.
    unfold isnew in He. rewrite He. simpl. rewrite IHz by assumption. reflexivity.
  - inversion Hp as [|? ? He Hr]; subst. inversion Hf as [|? ? Hfe Hfr]; subst.
    unfold placed in He. destruct (Z.eqb_spec (e_uid e) 0) as [E|E]; [contradiction|]. simpl.
    rewrite (mul2_fits debug _ Hfe). cbn [bind]. rewrite (add1_fits debug _ Hfe). cbn [bind].
    rewrite IH by assumption. reflexivity.
Qed.

(* a placed element is never greater than a new one, a new one always greater than a placed one *)
Lemma le_named_placed_new a b : placed a -> isnew b -> le_named a b = true.
Proof.
  unfold placed, isnew, le_named, leb_of, cmp_named, cmp_uid_line. intros Ha Hb. rewrite Hb.
  destruct (Z.eqb_spec (e_uid a) 0); [contradiction|]. simpl. reflexivity.
Qed.
Lemma le_named_new_placed a b : isnew a -> placed b -> le_named a b = false.
Proof.
  unfold placed, isnew, le_named, leb_of, cmp_named, cmp_uid_line. intros Ha Hb. rewrite Ha.
  destruct (Z.eqb_spec (e_uid b) 0); [contradiction|]. simpl. reflexivity.
Qed.

(* sorting a list whose placed prefix is already in order only permutes the new suffix *)
Lemma ssort_prefix p : forall z,
  Sorted (leP le_named) p -> Forall placed p -> Forall isnew z ->
  ssort le_named (p ++ z) = p ++ ssort le_named z.
Proof.
  induction p as [|e r IH]; intros z Hs Hp Hz; simpl; [reflexivity|].
  inversion Hs as [|? ? Hs' Hd]; subst. inversion Hp as [|? ? He Hr]; subst.
  rewrite IH by assumption. apply ins_head.
  destruct r as [|y r']; simpl.
  - assert (Hz' : Forall isnew (ssort le_named z)).
    { eapply Permutation_Forall; [symmetry; apply ssort_perm | exact Hz]. }
    destruct (ssort le_named z) as [|y t]; constructor.
    inversion Hz'; subst. apply le_named_placed_new; assumption.
  - constructor. inversion Hd; assumption.
Qed.

(* ---- the main per-list statement: placed prefix keeps its order, uids double, new elements
        (sorted by line, then name) follow with the uid directly behind the last placed one ---- *)
Theorem sol_new_prefix_stable debug p z :
  Sorted (leP le_named) p -> Forall placed p -> Forall isnew z -> Forall fits (p ++ z) ->
  sort_objectlist_new debug (p ++ z) =
    Ok (map dbl p ++ map (assign (lastuid p 0)) (ssort le_named z)).
Proof.
  intros Hs Hp Hz Hf. unfold sort_objectlist_new. rewrite ssort_prefix by assumption.
  apply sol_loop_prefix; [assumption | |].
  - eapply Permutation_Forall; [symmetry; apply ssort_perm | exact Hz].
  - apply Forall_app in Hf. destruct Hf as [Hf1 Hf2]. apply Forall_app. split; [exact Hf1|].
    eapply Permutation_Forall; [symmetry; apply ssort_perm | exact Hf2].
Qed.

(* doubling keeps every comparison between placed elements *)
Lemma cmp_uid_line_dbl u1 l1 u2 l2 c : u1 <> 0 -> u2 <> 0 ->
  cmp_uid_line (2 * u1) l1 (2 * u2) l2 c = cmp_uid_line u1 l1 u2 l2 c.
Proof.
  intros H1 H2. unfold cmp_uid_line.
  destruct (Z.eqb_spec (2 * u1) 0), (Z.eqb_spec (2 * u2) 0), (Z.eqb_spec u1 0), (Z.eqb_spec u2 0); try lia. simpl.
  destruct (Z.eqb_spec (2 * u1) (2 * u2)), (Z.eqb_spec u1 u2); try lia; [reflexivity|].
  rewrite !Z.compare_lt_iff || idtac.
  destruct (Z.compare_spec (2 * u1) (2 * u2)), (Z.compare_spec u1 u2); try lia; reflexivity.
Qed.

Theorem sort_function_dbl a b : placed a -> placed b ->
  sort_function (dbl a) (dbl b) = sort_function a b.
Proof. intros Ha Hb. unfold sort_function, dbl; simpl. apply cmp_uid_line_dbl; assumption. Qed.

Theorem cmp_named_dbl a b : placed a -> placed b -> cmp_named (dbl a) (dbl b) = cmp_named a b.
Proof. intros Ha Hb. unfold cmp_named, dbl; simpl. apply cmp_uid_line_dbl; assumption. Qed.

(* a new element that received 2*M+1 sorts after exactly the placed elements whose old uid was <= M *)
Theorem sort_function_new_vs_placed a n M : 0 < e_uid a -> 0 <= M ->
  sort_function (dbl a) (assign (2 * M + 1) n) = (if e_uid a <=? M then Lt else Gt).
Proof.
  intros Ha HM. unfold sort_function, dbl, assign, cmp_uid_line; simpl.
  destruct (Z.eqb_spec (2 * e_uid a) 0), (Z.eqb_spec (2 * M + 1) 0); try lia. simpl.
  destruct (Z.eqb_spec (2 * e_uid a) (2 * M + 1)); try lia.
  destruct (Z.leb_spec (e_uid a) M), (Z.compare_spec (2 * e_uid a) (2 * M + 1)); try lia; reflexivity.
Qed.

(* the list stays in the shape "sorted placed prefix" (so the theorem applies again after the next pushes) *)
Lemma dbl_sorted p : Forall placed p -> Sorted (leP le_named) p -> Sorted (leP le_named) (map dbl p).
Proof.
  intros Hp Hs. induction Hs as [|e r Hs IH Hd]; simpl; [constructor|].
  inversion Hp as [|? ? He Hr]; subst. constructor; [apply IH; exact Hr|].
  destruct r as [|y r']; simpl; constructor. inversion Hd as [|? ? Hey]; subst. inversion Hr; subst.
  unfold leP, le_named in *. rewrite leb_of_true in *. rewrite cmp_named_dbl; assumption.
Qed.

Lemma lastuid_app p e last : lastuid (p ++ [e]) last = 2 * e_uid e + 1.
Proof. revert last; induction p as [|x r IH]; intros last; simpl; [reflexivity | apply IH]. Qed.

(* repeated calls without intervening insertions: k calls multiply every uid by 2^k *)
Fixpoint iter_sol (debug : bool) (k : nat) (l : list el) : Res (list el) :=
  match k with O => Ok l | S k' => l' <- sort_objectlist_new debug l ;; iter_sol debug k' l' end.

Definition scale (c : Z) (e : el) : el := set_uid e (c * e_uid e).

Lemma scale_dbl c e : dbl (scale c e) = scale (2 * c) e.
Proof. unfold dbl, scale, set_uid; simpl. f_equal. lia. Qed.

Theorem iter_sol_scales debug k : forall p c, 0 < c ->
  Sorted (leP le_named) (map (scale c) p) -> Forall placed (map (scale c) p) ->
  Forall (fun e => 0 <= e_uid e /\ c * 2 ^ Z.of_nat k * e_uid e < U32) p ->
  iter_sol debug k (map (scale c) p) = Ok (map (scale (c * 2 ^ Z.of_nat k)) p).
Proof.
  induction k as [|k IH]; intros p c Hc Hs Hp Hf.
  - cbn [iter_sol]. change (Z.of_nat 0) with 0. rewrite Z.pow_0_r, Z.mul_1_r. reflexivity.
  - cbn [iter_sol].
    assert (Hfit : Forall fits (map (scale c) p ++ [])).
    { rewrite app_nil_r. apply Forall_forall. intros e He. apply in_map_iff in He. destruct He as (x & <- & Hx).
      rewrite Forall_forall in Hf. specialize (Hf x Hx). destruct Hf as [H0 H1].
      unfold fits, fitsZ, scale; simpl. rewrite Nat2Z.inj_succ, Z.pow_succ_r in H1 by lia.
      assert (c * e_uid x >= 0) by nia. split; [lia|].
      assert (Hpl : e_uid x <> 0).
      { rewrite Forall_forall in Hp. specialize (Hp (scale c x) (in_map _ _ _ Hx)). unfold placed, scale in Hp; simpl in Hp. nia. }
      assert (0 < 2 ^ Z.of_nat k) by (apply Z.pow_pos_nonneg; lia).
      assert (c * e_uid x <= c * e_uid x * 2 ^ Z.of_nat k) by nia.
      assert (c * (2 * 2 ^ Z.of_nat k) * e_uid x = 2 * (c * e_uid x * 2 ^ Z.of_nat k)) by ring.
      unfold U32 in *. lia. }
    pose proof (sol_new_prefix_stable debug (map (scale c) p) [] Hs Hp (Forall_nil _) Hfit) as H.
    rewrite app_nil_r in H. simpl in H. rewrite app_nil_r in H. rewrite H. simpl.
    rewrite map_map. erewrite map_ext by (intros; apply scale_dbl).
    rewrite IH.
    + f_equal. apply map_ext. intros e. unfold scale. f_equal.
      rewrite Nat2Z.inj_succ, Z.pow_succ_r by lia. lia.
    + lia.
    + erewrite <- map_ext by (intros; apply scale_dbl). rewrite <- map_map. apply dbl_sorted; assumption.
    + apply Forall_forall. intros e He. apply in_map_iff in He. destruct He as (x & <- & Hx).
      rewrite Forall_forall in Hp. specialize (Hp (scale c x) (in_map _ _ _ Hx)).
      unfold placed, scale in *; simpl in *. nia.
    + eapply Forall_impl; [|exact Hf]. intros e [H0 H1]. split; [exact H0|].
      rewrite Nat2Z.inj_succ, Z.pow_succ_r in H1 by lia. nia.
Qed.

(* ---- the unbounded statement is false: every placed element makes some call overflow ---- *)
Lemma sol_loop_uid_in debug : forall l last l' e, sol_new_loop debug l last = Ok l' -> In e l -> placed e ->
  0 <= e_uid e -> debug = true -> 2 * e_uid e < U32 /\ In (dbl e) l'.
Proof.
  induction l as [|x r IH]; intros last l' e H Hin Hp H0 Hd; [inversion Hin|]. subst debug.
  simpl in H. destruct (Z.eqb_spec (e_uid x) 0) as [E|E]; simpl in H.
  - destruct (sol_new_loop true r last) as [r'| | |] eqn:Hr; simpl in H; try discriminate. inversion H; subst.
    destruct Hin as [->|Hin]; [unfold placed in Hp; contradiction|].
    destruct (IH _ _ _ Hr Hin Hp H0 eq_refl) as [H1 H2]. split; [exact H1 | right; exact H2].
  - unfold mul2 in H. destruct (Z.ltb_spec (2 * e_uid x) U32) as [L|L]; simpl in H; [|discriminate].
    destruct (add1 true (2 * e_uid x)) as [n| | |]; simpl in H; try discriminate.
    destruct (sol_new_loop true r n) as [r'| | |] eqn:Hr; simpl in H; try discriminate. inversion H; subst.
    destruct Hin as [->|Hin]; [split; [exact L | left; reflexivity]|].
    destruct (IH _ _ _ Hr Hin Hp H0 eq_refl) as [H1 H2]. split; [exact H1 | right; exact H2].
Qed.

Theorem iter_sol_overflows k : forall l l' e, iter_sol true (S k) l = Ok l' -> In e l -> 0 < e_uid e ->
  2 ^ Z.of_nat (S k) * e_uid e < U32.
Proof.
  induction k as [|k IH]; intros l l' e H Hin Hpos.
  - cbn [iter_sol] in H. unfold sort_objectlist_new in H. fold le_named in H.
    destruct (sol_new_loop true (ssort le_named l) 0) as [l1| | |] eqn:H1; cbn [bind] in H; try discriminate.
    assert (Hin' : In e (ssort le_named l)) by (eapply Permutation_in; [symmetry; apply ssort_perm | exact Hin]).
    assert (Hpl : placed e) by (unfold placed; lia). assert (H0 : 0 <= e_uid e) by lia.
    destruct (sol_loop_uid_in true _ _ _ e H1 Hin' Hpl H0 eq_refl) as [L _].
    change (Z.of_nat 1) with 1. rewrite Z.pow_1_r. exact L.
  - cbn [iter_sol] in H. unfold sort_objectlist_new in H at 1. fold le_named in H.
    destruct (sol_new_loop true (ssort le_named l) 0) as [l1| | |] eqn:H1; cbn [bind] in H; try discriminate.
    assert (Hin' : In e (ssort le_named l)) by (eapply Permutation_in; [symmetry; apply ssort_perm | exact Hin]).
    assert (Hpl : placed e) by (unfold placed; lia). assert (H0 : 0 <= e_uid e) by lia.
    destruct (sol_loop_uid_in true _ _ _ e H1 Hin' Hpl H0 eq_refl) as [L Hd].
    assert (Hpos2 : 0 < e_uid (dbl e)) by (unfold dbl; simpl; lia).
    specialize (IH l1 l' (dbl e) H Hd Hpos2). unfold dbl in IH; simpl in IH.
    rewrite Nat2Z.inj_succ, Z.pow_succ_r by lia. lia.
Qed.

(* 32 consecutive calls cannot all succeed in a debug build if the list holds a placed element *)
Theorem sol_new_32_calls_panic l e : In e l -> 0 < e_uid e -> forall l', iter_sol true 32 l <> Ok l'.
Proof.
  intros Hin Hpos l' H. pose proof (iter_sol_overflows 31 l l' e H Hin Hpos) as L.
  change (Z.of_nat 32) with 32 in L. unfold U32 in L. change (2 ^ 32) with 4294967296 in L. lia.
Qed.

(* ====================================================================== C14 *)
Definition content (e : el) : string * string * N := (e_tag e, e_name e, e_pay e).

Lemma number_from_spec l : forall s,
  snd (number_from l s) = s + Z.of_nat (length l) /\
  map content (fst (number_from l s)) = map content l /\
  map e_line (fst (number_from l s)) = map e_line l /\
  (forall i e, nth_error (fst (number_from l s)) i = Some e ->
               e_uid e = s + Z.of_nat i /\ e_so e = 2 /\ e_eo e = 1).
Proof.
  induction l as [|x r IH]; intros s; cbn [number_from].
  - cbn. split; [lia|]. split; [reflexivity|]. split; [reflexivity|]. intros [|i] e H; discriminate.
  - specialize (IH (s + 1)). destruct (number_from r (s + 1)) as [r' u'] eqn:E. cbn [fst snd] in *.
    destruct IH as (H1 & H2 & H3 & H4).
    split; [rewrite H1; cbn [length]; lia|].
    split; [cbn [map]; f_equal; exact H2|].
    split; [cbn [map]; f_equal; exact H3|].
    intros i e H. destruct i as [|i]; cbn [nth_error] in H.
    + inversion H; subst. cbn. split; [lia | split; reflexivity].
    + destruct (H4 i e H) as (U & V & W). split; [rewrite U; lia | split; assumption].
Qed.

Lemma name_sorted_map (f : el -> el) l :
  (forall e, e_name (f e) = e_name e) -> Sorted (leP name_leb) l -> Sorted (leP name_leb) (map f l).
Proof.
  intros Hf Hs. induction Hs as [|x r Hs IH Hd]; simpl; [constructor|]. constructor; [exact IH|].
  destruct r as [|y r']; simpl; constructor. inversion Hd as [|? ? Hxy]; subst.
  unfold leP, name_leb in *. rewrite !Hf. exact Hxy.
Qed.

Lemma number_from_names_sorted l : forall s,
  Sorted (leP name_leb) l -> Sorted (leP name_leb) (fst (number_from l s)).
Proof.
  induction l as [|x r IH]; intros s Hs; simpl; [constructor|].
  specialize (IH (s + 1)). destruct (number_from r (s + 1)) as [r' u'] eqn:E. simpl in *.
  inversion Hs as [|? ? Hs' Hd]; subst. constructor; [apply IH; exact Hs'|].
  destruct r as [|y t]; simpl in E.
  - inversion E; subst. constructor.
  - destruct (number_from t (s + 1 + 1)) as [t' u''] eqn:E2. inversion E; subst. constructor.
    inversion Hd as [|? ? Hxy]; subst. unfold leP, name_leb in *. simpl. exact Hxy.
Qed.

Lemma number_from_ext l : forall s l2, map content l = map content l2 -> map e_line l = map e_line l2 ->
  number_from l s = number_from l2 s.
Proof.
  induction l as [|x r IH]; intros s [|y t] Hc Hl; cbn [map] in *; try discriminate; [reflexivity|].
  unfold content at 1 3 in Hc. injection Hc as Ht Hn Hp Hr. injection Hl as Hlx Hlr. cbn [number_from].
  rewrite (IH (s + 1) t Hr Hlr). destruct (number_from t (s + 1)). f_equal. f_equal.
  unfold set_layout. f_equal; assumption.
Qed.

(* sort_objectlist_full: same elements (content untouched), names ascending, uids consecutive *)
Theorem sort_full_spec l s :
  let r := sort_objectlist_full l s in
  Permutation (map content (fst r)) (map content l) /\
  Sorted (leP name_leb) (fst r) /\
  snd r = s + Z.of_nat (length l) /\
  (forall i e, nth_error (fst r) i = Some e -> e_uid e = s + Z.of_nat i /\ e_so e = 2 /\ e_eo e = 1).
Proof.
  unfold sort_objectlist_full. simpl.
  destruct (number_from_spec (ssort name_leb l) s) as (H1 & H2 & H3 & H4).
  repeat split.
  - rewrite H2. apply Permutation_map. apply ssort_perm.
  - apply number_from_names_sorted. apply ssort_sorted; [apply name_leb_total].
  - rewrite H1. f_equal. f_equal. apply Permutation_length. apply ssort_perm.
  - apply (H4 i e H).
  - apply (H4 i e H).
  - apply (H4 i e H).
Qed.

(* sorting a second time changes nothing (same start uid) *)
Theorem sort_full_idempotent l s :
  sort_objectlist_full (fst (sort_objectlist_full l s)) s = sort_objectlist_full l s.
Proof.
  unfold sort_objectlist_full.
  assert (Hs : Sorted (leP name_leb) (fst (number_from (ssort name_leb l) s))).
  { apply number_from_names_sorted. apply ssort_sorted. apply name_leb_total. }
  rewrite (ssort_sorted_id name_leb _ Hs).
  destruct (number_from_spec (ssort name_leb l) s) as (_ & H2 & H3 & _).
  apply number_from_ext; assumption.
Qed.
