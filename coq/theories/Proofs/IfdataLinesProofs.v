(** C05, the parser's side of the line bookkeeping for IF_DATA that a definition describes: every line offset that the typed IF_DATA
    parser stores - with each scalar, with the tag (or the /begin) and with the /end of each tagged item - is the line of that token
    minus the line of the token in front of it.  [goffs g] lists the stored offsets of a value token by token, aligned with the
    tokens [ftoks g] that the writer prints (None: a token without an offset of its own - the tag behind /begin and behind /end,
    which the writer puts one blank behind them). *)
From Coq Require Import Ascii String List Bool Arith NArith ZArith Lia Sorting.Sorted Permutation.
From A2L Require Import Base.StableSort Text.Escape Text.IntText Lex.Tokenizer Gram.Spec A2ml.Types Gram.PState Gram.Parser Gram.Writer Gram.TokWriter
  Proofs.CursorProofs Proofs.StrictWholeProofs Proofs.SeqMonoProofs Proofs.RoundTripProofs Proofs.RoundTripOrderProofs Proofs.ParseOrderProofs
  Proofs.LineOffsetProofs Proofs.ParseTraceProofs Proofs.TerminationProofs Proofs.GroupOrderProofs Proofs.IfdataRoundTripProofs Proofs.IfdataFollowProofs
  Proofs.IfdataTraceProofs.
Import ListNotations.

Definition item_offs (i : ginfo (list (option N))) : list (option N) :=
  match i with
  | GTag _ _ _ _ so eo isb offs _ => if isb then Some so :: None :: offs ++ [Some eo; None] else Some so :: offs
  | GComment _ _ _ _ _ => []
  end.

Fixpoint goffs (g : gifd) : list (option N) :=
  match g with
  | GInt _ off _ _ | GFloat off _ | GDouble off _ | GString off _ | GEnumItem off _ => [Some off]
  | GArray l | GSequence l | GStruct _ _ l | GBlock _ _ l => flat_map goffs l
  | GTaggedStruct tg | GTaggedUnion tg => flat_map item_offs (group_order (flat_map (fun kv => map ti_offs (snd kv)) tg))
  | GNone => []
  end
with ti_offs (t : gtitem) : ginfo (list (option N)) :=
  match t with GTI inc line uid so eo tag data isb => GTag tag inc uid line so eo isb (goffs data) None end.

Definition ioffs (i : ginfo gifd) : list (option N) := item_offs (gmap goffs i).

Lemma goffs_tagged tg : flat_map item_offs (group_order (flat_map (fun kv => map ti_offs (snd kv)) tg)) = flat_map ioffs (witems tg).
Proof.
  unfold witems, ioffs.
  assert (E : flat_map (fun kv => map ti_offs (snd kv)) tg = map (gmap goffs) (flat_map (fun kv => map ti_info (snd kv)) tg)).
  { induction tg as [|kv r IH]; [reflexivity|]. cbn [flat_map]. rewrite map_app, IH. f_equal.
    rewrite map_map. apply map_ext. intros []. reflexivity. }
  rewrite E, group_order_map. induction (group_order _) as [|x l IH]; [reflexivity|]. cbn [map flat_map]. rewrite IH. reflexivity.
Qed.

Lemma goffs_make_block g i l : goffs (make_block g i l) = goffs g.
Proof. destruct g; cbn [make_block goffs flat_map]; rewrite ?app_nil_r; reflexivity. Qed.

Lemma adv_rest_ne ts s s' : adv ts s s' -> ps_after s' <> [] -> ps_after s <> [].
Proof. intros A H E. rewrite (adv_after _ _ _ A) in E. apply app_eq_nil in E. destruct E as [_ E]. exact (H E). Qed.

Lemma off_inv2 {A} (m : M A) (k : A -> N -> gifd) s g s' :
  (x <-- m ;; off <-- get_line_offset ;; ret (k x off)) s = (ROk g, s') ->
  exists x s1 off, m s = (ROk x, s1) /\ g = k x off /\ get_line_offset s1 = (ROk off, s').
Proof.
  intros E. destruct (bind_ok_inv _ _ _ _ _ E) as (x & s1 & E1 & E2). destruct (bind_ok_inv _ _ _ _ _ E2) as (off & s2 & G & E3).
  injection E3 as <- <-. exists x, s1, off. auto.
Qed.

(* one token with its offset *)
Lemma one_scalar_line t s s1 off s' : Inv s -> first_ok s -> adv [t] s s1 -> get_line_offset s1 = (ROk off, s') -> ps_after s' <> [] ->
  s' = s1 /\ lines_as (prevl s) [t] [Some off].
Proof.
  intros I Hfo A1 G Hne. assert (I1 : Inv s1) by (exact (adv_inv _ _ _ I A1)).
  destruct (glo_fine s1 I1) as (o & G'). assert (Es : s' = s1) by congruence. subst s'. split; [reflexivity|].
  pose proof (glo_after [] t s s1 I Hfo A1 Hne) as G2. rewrite G in G2. injection G2 as ->. cbn. split; [reflexivity | exact Logic.I].
Qed.

Definition ltr (m : M gifd) : Prop :=
  forall s g s', Inv s -> first_ok s -> m s = (ROk g, s') -> ps_log s' = ps_log s -> ps_after s' <> [] ->
  exists ts, adv ts s s' /\ lines_as (prevl s) ts (goffs g).

Lemma lines_compose ts1 ts2 s s1 s2 x y : adv ts1 s s1 -> adv ts2 s1 s2 -> lines_as (prevl s) ts1 x -> lines_as (prevl s1) ts2 y ->
  adv (ts1 ++ ts2) s s2 /\ lines_as (prevl s) (ts1 ++ ts2) (x ++ y).
Proof.
  intros A1 A2 L1 L2. split; [exact (adv_trans _ _ _ _ _ A1 A2)|]. apply lines_as_app; [exact L1|]. rewrite <- (adv_prevl _ _ _ A1). exact L2.
Qed.

Lemma ltr_int variant t c : c_fileid c = O -> ltr (int_item variant t c).
Proof.
  intros Hc s g s' I Hfo E L Hne. unfold int_item in E.
  destruct (off_inv2 _ (fun r o => GInt variant o (fst r) (snd r)) _ _ _ E) as (x & s1 & off & E1 & -> & G).
  destruct (get_integer_inv c Hc t s x s1 I E1) as (tk & r & Ea & Ht & Hg & A1).
  destruct (one_scalar_line tk s s1 off s' I Hfo A1 G Hne) as [-> Ll]. exists [tk]. split; [exact A1 | exact Ll].
Qed.

Section Rec.
  Variable rec : a2mlty -> ctx -> M gifd.
  Variable D : a2mlty -> Prop.
  Hypothesis Hcs : forall ty c, csim (rec ty c).
  Hypothesis Hsm : forall ty c, smono (rec ty c).
  Hypothesis Hmv : forall ty c, c_fileid c = O -> D ty -> moves (rec ty c).
  Hypothesis Hl : forall ty c, c_fileid c = O -> D ty -> ltr (rec ty c).
  Hint Resolve Hcs : csim.
  Hint Resolve Hsm : smono.
  Hint Resolve csim_array_items csim_struct_items : csim.

  Lemma ltr_array_items ty c : c_fileid c = O -> D ty -> forall n s l s', Inv s -> first_ok s ->
    array_items rec n ty c s = (ROk l, s') -> ps_log s' = ps_log s -> ps_after s' <> [] ->
    exists ts, adv ts s s' /\ lines_as (prevl s) ts (flat_map goffs l).
  Proof.
    intros Hc Hd. induction n as [|n IH]; intros s l s' I Hfo E L Hne; cbn [array_items] in E.
    - injection E as <- <-. exists []. split; [apply adv_refl, (inv_pos s I) | exact Logic.I].
    - apply bind_clean_inv in E; [|cs|intro; cs|exact L]. destruct E as (x & s1 & E1 & L1 & E2 & L2).
      apply bind_clean_inv in E2; [|cs|intro; cs|exact L2]. destruct E2 as (r & s2 & E3 & L3 & E4 & _). injection E4 as <- <-.
      destruct (Hmv ty c Hc Hd s _ s1 I E1) as (tm1 & Am1). assert (I1 : Inv s1) by (exact (adv_inv _ _ _ I Am1)).
      assert (M2 : exists tm2, adv tm2 s1 s2).
      { assert (Mv : moves (array_items rec n ty c)) by (apply (moves_array_items rec D Hmv); assumption). exact (Mv s1 _ s2 I1 E3). }
      destruct M2 as (tm2 & Am2).
      destruct (Hl ty c Hc Hd s x s1 I Hfo E1 L1 (adv_rest_ne _ _ _ Am2 Hne)) as (ts1 & A1 & R1).
      destruct (IH s1 r s2 I1 (first_ok_adv _ _ _ A1 Hfo) E3 L3 Hne) as (ts2 & A2 & R2).
      exists (ts1 ++ ts2). cbn [flat_map]. exact (lines_compose _ _ _ _ _ _ _ A1 A2 R1 R2).
  Qed.

  Lemma ltr_struct_items c : c_fileid c = O -> forall tys, Forall D tys -> forall s l s', Inv s -> first_ok s ->
    struct_items rec tys c s = (ROk l, s') -> ps_log s' = ps_log s -> ps_after s' <> [] ->
    exists ts, adv ts s s' /\ lines_as (prevl s) ts (flat_map goffs l).
  Proof.
    intros Hc. induction tys as [|ty tys IH]; intros Hd s l s' I Hfo E L Hne; cbn [struct_items] in E.
    - injection E as <- <-. exists []. split; [apply adv_refl, (inv_pos s I) | exact Logic.I].
    - inversion Hd as [|? ? D1 D2]; subst.
      apply bind_clean_inv in E; [|cs|intro; cs|exact L]. destruct E as (x & s1 & E1 & L1 & E2 & L2).
      apply bind_clean_inv in E2; [|cs|intro; cs|exact L2]. destruct E2 as (r & s2 & E3 & L3 & E4 & _). injection E4 as <- <-.
      destruct (Hmv ty c Hc D1 s _ s1 I E1) as (tm1 & Am1). assert (I1 : Inv s1) by (exact (adv_inv _ _ _ I Am1)).
      assert (M2 : exists tm2, adv tm2 s1 s2).
      { assert (Mv : moves (struct_items rec tys c)) by (apply (moves_struct_items rec D Hmv); assumption). exact (Mv s1 _ s2 I1 E3). }
      destruct M2 as (tm2 & Am2).
      destruct (Hl ty c Hc D1 s x s1 I Hfo E1 L1 (adv_rest_ne _ _ _ Am2 Hne)) as (ts1 & A1 & R1).
      destruct (IH D2 s1 r s2 I1 (first_ok_adv _ _ _ A1 Hfo) E3 L3 Hne) as (ts2 & A2 & R2).
      exists (ts1 ++ ts2). cbn [flat_map]. exact (lines_compose _ _ _ _ _ _ _ A1 A2 R1 R2).
  Qed.

  Lemma ltr_seq_items ty c : c_fileid c = O -> D ty -> forall n acc s l s', Inv s -> first_ok s ->
    seq_items rec n ty c acc s = (ROk l, s') -> ps_log s' = ps_log s -> ps_after s' <> [] ->
    exists ts l', l = acc ++ l' /\ adv ts s s' /\ lines_as (prevl s) ts (flat_map goffs l').
  Proof.
    intros Hc Hd. induction n as [|n IH]; intros acc s l s' I Hfo E L Hne; cbn [seq_items] in E; [discriminate|].
    rewrite bind_tokenpos in E.
    apply bind_clean_inv in E; [|cs| |exact L].
    2:{ intros [[a|] d]; [|cs]. apply csim_bind; [cs|]. intros pos. destruct (Nat.eqb pos (ps_pos s)); [cs | apply (csim_seq_items rec Hcs)]. }
    destruct E as (x & s1 & E1 & L1 & E2 & L2).
    destruct (try_clean_inv _ _ _ _ (Hcs ty c) E1 L1) as [(a & Er & ->)|(d & Er & ->)].
    - rewrite bind_tokenpos in E2. destruct (Hmv ty c Hc Hd s _ s1 I Er) as (tsm & Am).
      destruct (Nat.eqb (ps_pos s1) (ps_pos s)).
      + destruct (restore_inv acc l tsm s s1 s' I Am E2) as [-> A]. exists [], []. rewrite app_nil_r. split; [reflexivity|]. split; [exact A | exact Logic.I].
      + assert (I1 : Inv s1) by (exact (adv_inv _ _ _ I Am)).
        assert (M2 : exists tm2, adv tm2 s1 s').
        { assert (Mv : moves (seq_items rec n ty c (acc ++ [a]))) by (apply (moves_seq_items rec D Hmv); assumption). exact (Mv s1 _ s' I1 E2). }
        destruct M2 as (tm2 & Am2).
        destruct (Hl ty c Hc Hd s a s1 I Hfo Er L1 (adv_rest_ne _ _ _ Am2 Hne)) as (ts1 & A1 & R1).
        destruct (IH (acc ++ [a]) s1 l s' I1 (first_ok_adv _ _ _ A1 Hfo) E2 L2 Hne) as (ts2 & l2 & -> & A2 & R2).
        exists (ts1 ++ ts2), (a :: l2). rewrite <- app_assoc. split; [reflexivity|]. cbn [flat_map]. exact (lines_compose _ _ _ _ _ _ _ A1 A2 R1 R2).
    - destruct (Hmv ty c Hc Hd s _ s1 I Er) as (tsm & Am).
      destruct (restore_inv acc l tsm s s1 s' I Am E2) as [-> A]. exists [], []. rewrite app_nil_r. split; [reflexivity|]. split; [exact A | exact Logic.I].
  Qed.

  Lemma csim_tagged_item'' spec c : csim (tagged_item rec spec c).
  Proof. apply csim_tagged_item. exact Hcs. Qed.
  Hint Resolve csim_tagged_item'' : csim.

  Lemma ltr_tagged_item spec c : c_fileid c = O -> Forall D (map tg_item spec) -> forall s r s', Inv s -> first_ok s ->
    tagged_item rec spec c s = (ROk r, s') -> ps_log s' = ps_log s -> ps_after s' <> [] ->
    match r with
    | None => adv [] s s'
    | Some t => exists ts, adv ts s s' /\ lines_as (prevl s) ts (ioffs (ti_info t)) /\ (ps_seq s < ti_uid t)%N /\ (ti_uid t <= ps_seq s')%N
    end.
  Proof.
    intros Hc Hd s r s' I Hfo E L Hne. unfold tagged_item in E. rewrite bind_tokenpos, bind_remaining in E.
    rewrite (bind_ok _ _ _ _ _ (skip_comments_none c _ s I)) in E.
    apply bind_clean_inv in E; [|cs|intros [[[token isb so|cm off|]|] dd]; cbv zeta; cs|exact L].
    destruct E as (x & s1 & E1 & L1 & E2 & L2).
    assert (Back : forall ts1, adv ts1 s s1 -> (set_tokenpos (ps_pos s) ;;; ret (@None gtitem)) s1 = (ROk r, s') -> match r with None => adv [] s s' | Some _ => False end).
    { intros ts1 A1 X. destruct (restore_inv None r ts1 s s1 s' I A1 X) as [-> A]. exact A. }
    assert (Fin : match r with None => adv [] s s' | Some _ => False end ->
                  match r with None => adv [] s s'
                          | Some t => exists ts, adv ts s s' /\ lines_as (prevl s) ts (ioffs (ti_info t)) /\ (ps_seq s < ti_uid t)%N /\ (ti_uid t <= ps_seq s')%N end)
      by (destruct r; [intros [] | auto]).
    destruct (try_clean_inv (get_next_tag_or_comment c) _ _ _ ltac:(cs) E1 L1) as [(bc & Eg & ->)|(d & Eg & ->)].
    2:{ destruct (moves_gntc c Hc s _ s1 I Eg) as (ts1 & A1). exact (Fin (Back ts1 A1 E2)). }
    pose proof (smono_get_next_tag_or_comment c s _ s1 Eg) as Hgs.
    destruct (next_tag_inv c Hc s bc s1 I Eg) as [(tB & tI & r0 & off & Ha & HB & HI & -> & A1)|[(tI & r0 & off & Ha & HI & -> & A1)|(-> & A1)]].
    - (* /begin TAG *)
      pose proof (next_tag_block_off c s tB tI r0 off s1 I Hfo Ha HB HI Eg) as Hoff.
      cbv zeta in E2. destruct (find_tagged spec (tk_text tI)) as [tsp|] eqn:Ef; [|exact (Fin (Back _ A1 E2))].
      destruct (negb (Bool.eqb (tg_block tsp) true)); [exact (Fin (Back _ A1 E2))|].
      assert (Hnc : c_fileid (ctx_from_token (tk_text tI) tI) = O).
      { cbn. destruct (tok_ok_in s tI I) as (Q & _); [rewrite Ha; right; left; reflexivity | exact Q]. }
      assert (Dt : D (tg_item tsp)).
      { destruct (find_tagged_in _ _ _ Ef) as (Hin & _). rewrite Forall_forall in Hd. apply Hd. apply in_map. exact Hin. }
      set (newc := ctx_from_token (tk_text tI) tI) in *.
      assert (I1 : Inv s1) by (exact (adv_inv _ _ _ I A1)).
      apply bind_clean_inv in E2; [|cs|intro; cs|exact L2]. destruct E2 as (uid & s2 & E3 & L3 & E4 & L4).
      assert (Hu : uid = (ps_seq s1 + 1)%N /\ ps_seq s2 = uid /\ adv [] s1 s2).
      { unfold get_next_id in E3. injection E3 as <- <-. split; [reflexivity|]. split; [reflexivity|].
        constructor; [reflexivity | reflexivity | constructor; reflexivity | exact (inv_pos s1 I1)]. }
      destruct Hu as (Hu1 & Hu2 & A2). assert (I2 : Inv s2) by (exact (adv_inv _ _ _ I1 A2)).
      apply bind_clean_inv in E4; [|cs|intro; cs|exact L4]. destruct E4 as (data & s3 & E5 & L5 & E6 & L6).
      destruct (Hmv (tg_item tsp) newc Hnc Dt s2 _ s3 I2 E5) as (tmd & Amd). assert (I3 : Inv s3) by (exact (adv_inv _ _ _ I2 Amd)).
      rewrite Hnc, bind_incfile in E6.
      apply bind_clean_inv in E6; [|cs|intro; cs|exact L6]. destruct E6 as (eo & s4 & E7 & L7 & E8 & _).
      rewrite bind_incfile in E8. injection E8 as <- <-.
      assert (Hs34 : (ps_seq s3 <= ps_seq s4)%N).
      { match type of E7 with ?m s3 = _ => assert (Sm : smono m) by sm end. exact (Sm s3 _ s4 E7). }
      destruct (bind_ok_inv _ _ _ _ _ E7) as (tE & s3a & X1 & E7a).
      destruct (expect_inv newc Hnc TEnd s3 tE s3a I3 X1) as (r3 & Ea3 & HtE & A4).
      assert (I3a : Inv s3a) by (exact (adv_inv _ _ _ I3 A4)).
      destruct (bind_ok_inv _ _ _ _ _ E7a) as (eo' & s3b & G & E7b).
      destruct (bind_ok_inv _ _ _ _ _ E7b) as (tI2 & s3c & X2 & E7c).
      assert (Hs3b : s3b = s3a) by (exact (glo_inv s3a eo' s3b I3a G)). subst s3b.
      destruct (expect_inv newc Hnc TIdentifier s3a tI2 s3c I3a X2) as (r4 & Ea4 & HtI2 & A5).
      destruct (bytes_eqb (tk_text tI2) (tk_text tI)) eqn:Eq; [|destruct (diag_fail_not_ok _ _ _ _ _ _ E7c)].
      injection E7c as <- <-.
      assert (Hfo3 : first_ok s3) by (exact (first_ok_adv _ _ _ Amd (first_ok_adv _ _ _ A2 (first_ok_adv _ _ _ A1 Hfo)))).
      assert (Heo : eo' = (tk_line tE - prevl s3)%N).
      { pose proof (glo_after [] tE s3 s3a I3 Hfo3 A4 ltac:(rewrite Ea4; discriminate)) as G2. rewrite G in G2. injection G2 as ->. reflexivity. }
      destruct (Hl (tg_item tsp) newc Hnc Dt s2 data s3 I2 (first_ok_adv _ _ _ A2 (first_ok_adv _ _ _ A1 Hfo)) E5 L5 ltac:(rewrite Ea3; discriminate)) as (tsd & A3 & Rd).
      exists ([tB; tI] ++ tsd ++ [tE; tI2]). split; [|split].
      + pose proof (adv_trans _ _ _ _ _ (adv_trans _ _ _ _ _ (adv_trans _ _ _ _ _ (adv_trans _ _ _ _ _ A1 A2) A3) A4) A5) as Q.
        cbn [app] in Q. rewrite <- app_assoc in Q. exact Q.
      + unfold ioffs. cbn [ti_info gmap item_offs]. rewrite goffs_make_block.
        change (Some off :: None :: goffs data ++ [Some eo'; None]) with ([Some off; None] ++ goffs data ++ [Some eo'; None]).
        apply lines_as_app; [cbn; rewrite Hoff; repeat split|]. apply lines_as_app.
        * rewrite <- (adv_prevl _ _ _ A1). change (prevl s1) with (last_line (prevl s1) []). rewrite <- (adv_prevl [] s1 s2 A2). exact Rd.
        * rewrite <- (adv_prevl _ _ _ A1). replace (last_line (prevl s1) tsd) with (prevl s3).
          { cbn. rewrite Heo. repeat split. }
          rewrite (adv_prevl _ _ _ A3). f_equal. exact (adv_prevl [] s1 s2 A2).
      + cbn [ti_uid]. pose proof (Hsm _ _ s2 _ s3 E5) as Q2. split; lia.
    - (* TAG *)
      cbv zeta in E2. destruct (find_tagged spec (tk_text tI)) as [tsp|] eqn:Ef; [|exact (Fin (Back _ A1 E2))].
      destruct (negb (Bool.eqb (tg_block tsp) false)); [exact (Fin (Back _ A1 E2))|].
      assert (Hnc : c_fileid (ctx_from_token (tk_text tI) tI) = O).
      { cbn. destruct (tok_ok_in s tI I) as (Q & _); [rewrite Ha; left; reflexivity | exact Q]. }
      assert (Dt : D (tg_item tsp)).
      { destruct (find_tagged_in _ _ _ Ef) as (Hin & _). rewrite Forall_forall in Hd. apply Hd. apply in_map. exact Hin. }
      set (newc := ctx_from_token (tk_text tI) tI) in *.
      assert (I1 : Inv s1) by (exact (adv_inv _ _ _ I A1)).
      apply bind_clean_inv in E2; [|cs|intro; cs|exact L2]. destruct E2 as (uid & s2 & E3 & L3 & E4 & L4).
      assert (Hu : uid = (ps_seq s1 + 1)%N /\ ps_seq s2 = uid /\ adv [] s1 s2).
      { unfold get_next_id in E3. injection E3 as <- <-. split; [reflexivity|]. split; [reflexivity|].
        constructor; [reflexivity | reflexivity | constructor; reflexivity | exact (inv_pos s1 I1)]. }
      destruct Hu as (Hu1 & Hu2 & A2). assert (I2 : Inv s2) by (exact (adv_inv _ _ _ I1 A2)).
      apply bind_clean_inv in E4; [|cs|intro; cs|exact L4]. destruct E4 as (data & s3 & E5 & L5 & E6 & L6).
      rewrite Hnc, bind_incfile, bind_ret, bind_incfile in E6. injection E6 as <- <-.
      destruct (Hmv (tg_item tsp) newc Hnc Dt s2 _ s3 I2 E5) as (tmd & Amd).
      assert (Hne1 : ps_after s1 <> []) by (exact (adv_rest_ne _ _ _ A2 (adv_rest_ne _ _ _ Amd Hne))).
      pose proof (next_tag_keyword_off c s tI r0 off s1 I Hfo Ha HI Eg Hne1) as Hoff.
      destruct (Hl (tg_item tsp) newc Hnc Dt s2 data s3 I2 (first_ok_adv _ _ _ A2 (first_ok_adv _ _ _ A1 Hfo)) E5 L5 Hne) as (tsd & A3 & Rd).
      exists ([tI] ++ tsd). split; [|split].
      + exact (adv_trans _ _ _ _ _ (adv_trans _ _ _ _ _ A1 A2) A3).
      + unfold ioffs. cbn [ti_info gmap item_offs]. rewrite goffs_make_block.
        change (Some off :: goffs data) with ([Some off] ++ goffs data).
        apply lines_as_app; [cbn; rewrite Hoff; repeat split|].
        rewrite <- (adv_prevl _ _ _ A1). change (prevl s1) with (last_line (prevl s1) []). rewrite <- (adv_prevl [] s1 s2 A2). exact Rd.
      + cbn [ti_uid]. pose proof (Hsm _ _ s2 _ s3 E5) as Q2. split; lia.
    - exact (Fin (Back _ A1 E2)).
  Qed.

  Lemma ltr_ts_items spec c : c_fileid c = O -> Forall D (map tg_item spec) -> forall n acc s acc' s', Inv s -> first_ok s ->
    taggedstruct_items rec n spec c acc s = (ROk acc', s') -> ps_log s' = ps_log s -> ps_after s' <> [] ->
    exists ts R, adv ts s s' /\ acc' = fold_left (fun a t => assoc_push (ti_tag t) t a) R acc /\
                 lines_as (prevl s) ts (flat_map ioffs (map ti_info R)) /\ uchain (ps_seq s) R.
  Proof.
    intros Hc Hd. induction n as [|n IH]; intros acc s acc' s' I Hfo E L Hne; cbn [taggedstruct_items] in E; [discriminate|].
    apply bind_clean_inv in E; [|cs| |exact L].
    2:{ intros [[inc line uid so eo tag data isb]|]; [apply (csim_ts_items rec Hcs) | cs]. }
    destruct E as (r & s1 & E1 & L1 & E2 & L2).
    assert (Mv1 : exists tm1, adv tm1 s s1).
    { assert (Mv : moves (tagged_item rec spec c)) by (apply (moves_tagged_item rec D Hmv); assumption). exact (Mv s _ s1 I E1). }
    destruct Mv1 as (tm1 & Am1). assert (I1 : Inv s1) by (exact (adv_inv _ _ _ I Am1)).
    destruct r as [t|].
    - destruct t as [inc line uid so eo tag data isb].
      assert (Mv2 : exists tm2, adv tm2 s1 s').
      { assert (Mv : moves (taggedstruct_items rec n spec c (assoc_push tag (GTI inc line uid so eo tag data isb) acc)))
          by (apply (moves_ts_items rec D Hmv); assumption). exact (Mv s1 _ s' I1 E2). }
      destruct Mv2 as (tm2 & Am2).
      destruct (ltr_tagged_item spec c Hc Hd s _ s1 I Hfo E1 L1 (adv_rest_ne _ _ _ Am2 Hne)) as (ts1 & A1 & R1 & U1 & U2).
      destruct (IH _ s1 acc' s' I1 (first_ok_adv _ _ _ A1 Hfo) E2 L2 Hne) as (ts2 & R2 & A2 & -> & RR & UU).
      exists (ts1 ++ ts2), (GTI inc line uid so eo tag data isb :: R2).
      destruct (lines_compose _ _ _ _ _ _ _ A1 A2 R1 RR) as [Q1 Q2].
      split; [exact Q1|]. split; [reflexivity|]. split; [exact Q2|].
      cbn [uchain]. split; [exact U1|]. exact (uchain_weaken R2 _ _ U2 UU).
    - injection E2 as <- <-.
      pose proof (ltr_tagged_item spec c Hc Hd s None s1 I Hfo E1 L1 Hne) as T.
      exists [], []. split; [exact T|]. split; [reflexivity|]. split; [exact Logic.I | exact Logic.I].
  Qed.

  Lemma ltr_item_step ty c : c_fileid c = O -> Forall D (subs ty) -> ltr (item_step rec ty c).
  Proof.
    intros Hc Hd.
    assert (Hd' : forall spec, Forall D (map (fun t => match t with Tagged _ _ _ i => i end) spec) -> Forall D (map tg_item spec)).
    { intros spec H. rewrite Forall_forall in *. intros x Hx. apply H. apply in_map_iff in Hx. destruct Hx as (t0 & <- & Ht0).
      apply in_map_iff. exists t0. destruct t0; auto. }
    destruct ty; cbn [item_step subs] in *; try (apply ltr_int; exact Hc).
    - intros s g s' I Hfo E L Hne. injection E as <- <-. exists []. split; [apply adv_refl, (inv_pos s I) | exact Logic.I].
    - intros s g s' I Hfo E L Hne.
      destruct (off_inv2 _ (fun v o => GFloat o v) _ _ _ E) as (x & s1 & off & E1 & -> & G).
      destruct (moves_get_float c s _ s1 I E1) as (tsm & Am).
      destruct (get_float_inv c Hc (ps_ftab s) s x s1 I eq_refl E1) as (tk & r & Ea & Ht & Hg & A1).
      destruct (one_scalar_line tk s s1 off s' I Hfo A1 G Hne) as [-> Ll]. exists [tk]. split; [exact A1 | exact Ll].
    - intros s g s' I Hfo E L Hne.
      destruct (off_inv2 _ (fun v o => GDouble o v) _ _ _ E) as (x & s1 & off & E1 & -> & G).
      destruct (get_double_inv c Hc (ps_ftab s) s x s1 I eq_refl E1) as (tk & r & Ea & Ht & Hg & A1).
      destruct (one_scalar_line tk s s1 off s' I Hfo A1 G Hne) as [-> Ll]. exists [tk]. split; [exact A1 | exact Ll].
    - assert (Harr : D ty -> ltr (l <-- array_items rec dim ty c ;; ret (GArray l))).
      { intros Dt s g s' I Hfo E L Hne. destruct (bind_ok_inv _ _ _ _ _ E) as (l & s1 & E1 & E2). injection E2 as <- <-.
        destruct (ltr_array_items ty c Hc Dt dim s l s1 I Hfo E1 L Hne) as (ts & A & R). exists ts. split; [exact A | exact R]. }
      inversion Hd as [|? ? Dt _]; subst.
      destruct ty; try exact (Harr Dt).
      intros s g s' I Hfo E L Hne.
      destruct (off_inv2 _ (fun v o => GString o v) _ _ _ E) as (x & s1 & off & E1 & -> & G).
      destruct (moves_get_string_maxlen c dim s _ s1 I E1) as (tsm & Am).
      assert (Es : s' = s1). { destruct (glo_fine s1 (adv_inv _ _ _ I Am)) as (o & G'). congruence. }
      subst s'.
      destruct (get_string_maxlen_inv c Hc dim s x s1 I E1 L) as (tk & r & Ea & Ht & Hx & A1).
      destruct (one_scalar_line tk s s1 off s1 I Hfo A1 G Hne) as [_ Ll]. exists [tk]. split; [exact A1 | exact Ll].
    - intros s g s' I Hfo E L Hne.
      destruct (bind_ok_inv _ _ _ _ _ E) as (e & s1 & E1 & E2).
      destruct (get_identifier_inv c Hc s e s1 I E1) as (tk & r & Ea & Ht & Hx & A1).
      destruct (bind_ok_inv _ _ _ _ _ E2) as (off & s2 & G & E3).
      destruct (enum_has items e); [|destruct (diag_fail_not_ok _ _ _ _ _ _ E3)]. injection E3 as <- <-.
      destruct (one_scalar_line tk s s1 off s2 I Hfo A1 G Hne) as [-> Ll]. exists [tk]. split; [exact A1 | exact Ll].
    - intros s g s' I Hfo E L Hne.
      destruct (bind_ok_inv _ _ _ _ _ E) as (l & s1 & E1 & E2). rewrite Hc, bind_incfile in E2. injection E2 as <- <-.
      destruct (ltr_struct_items c Hc items Hd s l s1 I Hfo E1 L Hne) as (ts & A & R). exists ts. split; [exact A | exact R].
    - intros s g s' I Hfo E L Hne. rewrite bind_remaining in E.
      destruct (bind_ok_inv _ _ _ _ _ E) as (l & s1 & E1 & E2). injection E2 as <- <-. inversion Hd as [|? ? Dt _]; subst.
      destruct (ltr_seq_items ty c Hc Dt _ [] s l s1 I Hfo E1 L Hne) as (ts & l' & -> & A & R). exists ts. split; [exact A | exact R].
    - intros s g s' I Hfo E L Hne. rewrite bind_remaining in E.
      destruct (bind_ok_inv _ _ _ _ _ E) as (acc' & s1 & E1 & E2). injection E2 as <- <-.
      destruct (ltr_ts_items items c Hc (Hd' _ Hd) _ [] s acc' s1 I Hfo E1 L Hne) as (ts & R & A & -> & RR & U).
      exists ts. split; [exact A|].
      change (goffs (GTaggedStruct (fold_left (fun a t => assoc_push (ti_tag t) t a) R [])))
        with (flat_map item_offs (group_order (flat_map (fun kv => map ti_offs (snd kv)) (regroup R)))).
      rewrite goffs_tagged, (witems_regroup R _ U). exact RR.
    - intros s g s' I Hfo E L Hne.
      apply bind_clean_inv in E; [|cs|intros [[inc line uid so eo tag data isb]|]; cs|exact L]. destruct E as (r & s1 & E1 & L1 & E2 & _).
      destruct r as [t|].
      + destruct t as [inc line uid so eo tag data isb]. injection E2 as <- <-.
        destruct (ltr_tagged_item items c Hc (Hd' _ Hd) s _ s1 I Hfo E1 L1 Hne) as (ts1 & A1 & R1 & _).
        exists ts1. split; [exact A1|].
        assert (Et : goffs (GTaggedUnion [(tag, [GTI inc line uid so eo tag data isb])]) = ioffs (ti_info (GTI inc line uid so eo tag data isb)))
          by (cbn; rewrite ?app_nil_r; reflexivity).
        rewrite Et. exact R1.
      + injection E2 as <- <-. pose proof (ltr_tagged_item items c Hc (Hd' _ Hd) s None s1 I Hfo E1 L1 Hne) as T.
        exists []. split; [exact T|]. change (goffs (GTaggedUnion [])) with (@nil (option N)). exact Logic.I.
  Qed.
End Rec.

(** every offset the typed IF_DATA parser stores is the line of its token minus the line of the token in front of it *)
Theorem typed_ifdata_offsets_are_line_differences : forall f ty c, c_fileid c = O -> ty_depth ty <= f -> ltr (parse_ifdata_item f ty c).
Proof.
  induction f as [|f IH]; intros ty c Hc Hd.
  - exfalso. destruct ty; cbn [ty_depth] in Hd; lia.
  - cbn [parse_ifdata_item]. apply (ltr_item_step (parse_ifdata_item f) (fun t => ty_depth t <= f)).
    + intros ty0 c0. apply csim_parse_ifdata_item.
    + intros ty0 c0. apply smono_parse_ifdata_item.
    + intros ty0 c0 Hc0 H0. exact (moves_parse_ifdata_item f ty0 c0 Hc0 H0).
    + intros ty0 c0 Hc0 H0. exact (IH ty0 c0 Hc0 H0).
    + exact Hc.
    + apply subs_depth. exact Hd.
Qed.
Print Assumptions typed_ifdata_offsets_are_line_differences.
