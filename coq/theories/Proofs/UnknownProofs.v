(** C07: handle_unknown_taggedstruct_tag skips exactly the unknown element.
    Block form: for every balanced payload u, the tokens  u /end TAG  are consumed and nothing else. *)
From Coq Require Import Ascii String List Bool NArith ZArith Lia.
From A2L Require Import Text.Escape Lex.Tokenizer Gram.Spec Gram.PState Proofs.StrictProofs.
Import ListNotations.

Inductive balanced : list token -> Prop :=
| bal_nil : balanced []
| bal_tok t u : tk_type t <> TBegin -> tk_type t <> TEnd -> balanced u -> balanced (t :: u)
| bal_block tb u te v : tk_type tb = TBegin -> tk_type te = TEnd -> balanced u -> balanced v ->
                        balanced (tb :: u ++ te :: v).

(* the state after get_token has taken the tokens of u one by one *)
Fixpoint consume (s : pstate) (u : list token) : pstate :=
  match u with
  | [] => s
  | t :: r =>
      match ps_after s with
      | _ :: a => consume (upd_last (upd_cursor s (t :: ps_before s) a (S (ps_pos s))) (tk_line t)) r
      | [] => s
      end
  end.

Lemma get_token_cons c s t a : ps_after s = t :: a ->
  get_token c s = (ROk t, upd_last (upd_cursor s (t :: ps_before s) a (S (ps_pos s))) (tk_line t)).
Proof. intros H. unfold get_token. rewrite H. reflexivity. Qed.

Lemma consume_after s u rest : ps_after s = u ++ rest -> ps_after (consume s u) = rest.
Proof.
  revert s; induction u as [|t r IH]; intros s H; simpl; [exact H|].
  rewrite H. simpl. apply IH. reflexivity.
Qed.

Lemma consume_app s u v rest : ps_after s = u ++ v ++ rest -> consume s (u ++ v) = consume (consume s u) v.
Proof.
  revert s; induction u as [|t r IH]; intros s H; simpl; [reflexivity|].
  rewrite H. simpl. apply IH. reflexivity.
Qed.

Lemma consume_log s u : ps_log (consume s u) = ps_log s /\ ps_strict (consume s u) = ps_strict s /\ ps_seq (consume s u) = ps_seq s.
Proof.
  revert s; induction u as [|t r IH]; intros s; simpl; [auto|].
  destruct (ps_after s); [auto|]. destruct (IH (upd_last (upd_cursor s (t :: ps_before s) l (S (ps_pos s))) (tk_line t))) as (A & B & C).
  rewrite A, B, C. auto.
Qed.

(* inside a block-form unknown element (balance >= 1) a balanced run of tokens is skipped *)
Lemma unknown_loop_balanced u : balanced u ->
  forall fuel c errc tag stop b s rest, (1 <= b)%Z -> ps_after s = u ++ rest -> length u < fuel ->
  unknown_loop fuel c errc tag true stop b s =
  unknown_loop (fuel - length u) c errc tag true stop b (consume s u).
Proof.
  induction 1 as [|t u Hb He Hu IH|tb u te v Htb Hte Hu IHu Hv IHv]; intros fuel c errc tag stop b s rest Hbal Hs Hf.
  - simpl. rewrite Nat.sub_0_r. reflexivity.
  - destruct fuel as [|f]; [simpl in Hf; lia|]. cbn [unknown_loop]. unfold bindM at 1.
    simpl in Hs. rewrite (get_token_cons c s t (u ++ rest) Hs).
    simpl consume. rewrite Hs.
    replace (S f - length (t :: u)) with (f - length u) by (simpl; lia).
    destruct (tk_type t) eqn:Et; try contradiction.
    + (* identifier inside a block: ignored while balance <> 0 *)
      cbn [andb]. replace (b =? 0)%Z with false by lia.
      apply IH with (rest := rest); [lia | reflexivity | simpl in Hf; lia].
    + cbn [andb]. replace (b =? 0)%Z with false by lia. apply IH with (rest := rest); [lia | reflexivity | simpl in Hf; lia].
    + cbn [andb]. replace (b =? 0)%Z with false by lia. apply IH with (rest := rest); [lia | reflexivity | simpl in Hf; lia].
    + cbn [andb]. replace (b =? 0)%Z with false by lia. apply IH with (rest := rest); [lia | reflexivity | simpl in Hf; lia].
    + cbn [andb]. replace (b =? 0)%Z with false by lia. apply IH with (rest := rest); [lia | reflexivity | simpl in Hf; lia].
  - (* /begin u /end v *)
    destruct fuel as [|f]; [simpl in Hf; lia|]. cbn [unknown_loop]. unfold bindM at 1.
    simpl in Hs. rewrite <- app_assoc in Hs. simpl in Hs.
    rewrite (get_token_cons c s tb _ Hs). rewrite Htb.
    set (s1 := upd_last (upd_cursor s (tb :: ps_before s) (u ++ te :: v ++ rest) (S (ps_pos s))) (tk_line tb)).
    assert (Hlen : length (tb :: u ++ te :: v) = S (length u + S (length v))) by (simpl; rewrite app_length; simpl; lia).
    rewrite Hlen in *.
    rewrite (IHu f c errc tag stop (b + 1)%Z s1 (te :: v ++ rest)); [| lia | reflexivity | lia].
    set (s2 := consume s1 u).
    assert (H2 : ps_after s2 = te :: v ++ rest) by (apply consume_after; reflexivity).
    destruct (f - length u) as [|f2] eqn:Ef; [lia|]. cbn [unknown_loop]. unfold bindM at 1.
    rewrite (get_token_cons c s2 te _ H2). rewrite Hte.
    replace (b + 1 - 1 =? -1)%Z with false by lia.
    replace (b + 1 - 1)%Z with b by lia.
    set (s3 := upd_last (upd_cursor s2 (te :: ps_before s2) (v ++ rest) (S (ps_pos s2))) (tk_line te)).
    rewrite (IHv f2 c errc tag stop b s3 rest); [| lia | reflexivity | lia].
    f_equal; [lia|].
    (* the consumed states coincide *)
    simpl consume. rewrite Hs. fold s1.
    rewrite (consume_app s1 u (te :: v) rest) by (simpl; reflexivity).
    fold s2. simpl consume. rewrite H2. fold s3. reflexivity.
Qed.

(* ---- the whole function on  u /end TAG post  in non-strict mode ---- *)
Lemma bindM_ok {A B} (m : M A) (f : A -> M B) s a s1 : m s = (ROk a, s1) -> bindM m f s = f a s1.
Proof. intros H. unfold bindM. rewrite H. reflexivity. Qed.

Lemma bytes_eqb_refl b : bytes_eqb b b = true.
Proof. induction b as [|x r IH]; simpl; [reflexivity|]. unfold aeq. rewrite Ascii.eqb_refl. exact IH. Qed.

Theorem skip_unknown_block c tag stop s u tend ttag post :
  ps_strict s = false -> Nat.ltb (c_fileid c) (ps_nfiles s) = true ->
  balanced u -> tk_type tend = TEnd -> tk_type ttag = TIdentifier -> tk_text ttag = tag ->
  ps_after s = u ++ tend :: ttag :: post ->
  exists s', handle_unknown_taggedstruct_tag c tag true stop s = (ROk tt, s') /\
             ps_after s' = post /\
             ps_log s' = mkDiag "UnknownSubBlock" (Some (ps_last s)) (c_fileid c) tag :: ps_log s.
Proof.
  intros Hstrict Hfile Hu Hte Htt Htag Hs.
  set (d := mkDiag "UnknownSubBlock" (Some (ps_last s)) (c_fileid c) tag).
  set (s0 := upd_log s (d :: ps_log s)).
  assert (Hd : mk_diag "UnknownSubBlock" c tag s = (ROk d, s)) by (unfold mk_diag; rewrite Hfile; reflexivity).
  assert (He : error_or_log d s = (ROk tt, s0)) by (apply error_or_log_lenient; exact Hstrict).
  assert (H0 : ps_after s0 = u ++ tend :: ttag :: post) by exact Hs.
  destruct (u ++ tend :: ttag :: post) as [|t0 a0] eqn:Ea; [destruct u; discriminate|].
  set (s0' := upd_last (upd_cursor s0 (t0 :: ps_before s0) a0 (S (ps_pos s0))) (tk_line t0)).
  assert (Hg : get_token c s0 = (ROk t0, s0')) by (apply get_token_cons; exact H0).
  set (s1 := upd_cursor s0' (ps_before s0) (t0 :: a0) (pred (S (ps_pos s0)))).
  assert (Hundo : undo_get_token s0' = (ROk tt, s1)) by reflexivity.
  assert (H1 : ps_after s1 = u ++ tend :: ttag :: post) by (rewrite Ea; reflexivity).
  unfold handle_unknown_taggedstruct_tag.
  rewrite (bindM_ok _ _ _ _ _ Hd). rewrite (bindM_ok _ _ _ _ _ He).
  rewrite (bindM_ok _ _ _ _ _ Hg). rewrite (bindM_ok _ _ _ _ _ Hundo).
  replace (length (ps_after s1)) with (length u + S (S (length post))) by (rewrite H1, app_length; reflexivity).
  rewrite (unknown_loop_balanced u Hu _ c _ tag stop 1%Z s1 (tend :: ttag :: post)); [| lia | exact H1 | lia].
  set (s2 := consume s1 u).
  assert (H2 : ps_after s2 = tend :: ttag :: post) by (apply consume_after; exact H1).
  replace (S (length u + S (S (length post))) - length u) with (S (S (S (length post)))) by lia.
  set (s3 := upd_last (upd_cursor s2 (tend :: ps_before s2) (ttag :: post) (S (ps_pos s2))) (tk_line tend)).
  assert (Hg2 : get_token c s2 = (ROk tend, s3)) by (apply get_token_cons; exact H2).
  cbn [unknown_loop]. rewrite (bindM_ok _ _ _ _ _ Hg2). rewrite Hte.
  replace (1 - 1 =? -1)%Z with false by reflexivity.
  set (s4 := upd_last (upd_cursor s3 (ttag :: ps_before s3) post (S (ps_pos s3))) (tk_line ttag)).
  assert (Hg3 : get_token c s3 = (ROk ttag, s4)) by (apply get_token_cons; reflexivity).
  cbn [unknown_loop]. rewrite (bindM_ok _ _ _ _ _ Hg3). rewrite Htt.
  replace (1 - 1 =? 0)%Z with true by reflexivity. rewrite Htag, bytes_eqb_refl.
  exists s4. split; [reflexivity|]. split; [reflexivity|].
  cbn [ps_log upd_last upd_cursor s4 s3]. destruct (consume_log s1 u) as (L & _ & _). fold s2 in L. rewrite L. reflexivity.
Qed.

(* ---------- keyword form ---------- *)
Definition kw_token (stop : list bytes) (t : token) : Prop :=
  tk_type t <> TBegin /\ tk_type t <> TEnd /\ (tk_type t = TIdentifier -> mem_bytes (tk_text t) stop = false).

Lemma unknown_loop_kw stop u : Forall (kw_token stop) u ->
  forall fuel c errc tag s rest, ps_after s = u ++ rest -> length u < fuel ->
  unknown_loop fuel c errc tag false stop 0%Z s =
  unknown_loop (fuel - length u) c errc tag false stop 0%Z (consume s u).
Proof.
  induction 1 as [|t u (Hb & He & Hi) Hu IH]; intros fuel c errc tag s rest Hs Hf.
  - simpl. rewrite Nat.sub_0_r. reflexivity.
  - destruct fuel as [|f]; [simpl in Hf; lia|]. cbn [unknown_loop].
    simpl in Hs. rewrite (bindM_ok _ _ _ _ _ (get_token_cons c s t (u ++ rest) Hs)).
    simpl consume. rewrite Hs.
    replace (S f - length (t :: u)) with (f - length u) by (simpl; lia).
    destruct (tk_type t) eqn:Et; try contradiction.
    + cbn [orb andb]. replace ((0 =? 0)%Z || (0 =? 1)%Z) with true by reflexivity. rewrite (Hi eq_refl). cbn [andb].
      apply IH with (rest := rest); [reflexivity | simpl in Hf; lia].
    + cbn [andb]. apply IH with (rest := rest); [reflexivity | simpl in Hf; lia].
    + cbn [andb]. apply IH with (rest := rest); [reflexivity | simpl in Hf; lia].
    + cbn [andb]. apply IH with (rest := rest); [reflexivity | simpl in Hf; lia].
    + cbn [andb]. apply IH with (rest := rest); [reflexivity | simpl in Hf; lia].
Qed.

(* what may follow an unknown keyword: the /end of the enclosing block, a sibling keyword, or a sibling block *)
Inductive stopper (stop : list bytes) : list token -> Prop :=
| stop_end te post : tk_type te = TEnd -> stopper stop (te :: post)
| stop_kw ti post : tk_type ti = TIdentifier -> mem_bytes (tk_text ti) stop = true -> stopper stop (ti :: post)
| stop_block tb ti post : tk_type tb = TBegin -> tk_type ti = TIdentifier -> mem_bytes (tk_text ti) stop = true ->
                          stopper stop (tb :: ti :: post).

Theorem skip_unknown_keyword c tag stop s u post :
  ps_strict s = false -> Nat.ltb (c_fileid c) (ps_nfiles s) = true ->
  Forall (kw_token stop) u -> stopper stop post -> ps_after s = u ++ post ->
  exists s', handle_unknown_taggedstruct_tag c tag false stop s = (ROk tt, s') /\
             ps_after s' = post /\
             ps_log s' = mkDiag "UnknownSubBlock" (Some (ps_last s)) (c_fileid c) tag :: ps_log s.
Proof.
  intros Hstrict Hfile Hu Hstop Hs.
  set (d := mkDiag "UnknownSubBlock" (Some (ps_last s)) (c_fileid c) tag).
  set (s0 := upd_log s (d :: ps_log s)).
  assert (Hd : mk_diag "UnknownSubBlock" c tag s = (ROk d, s)) by (unfold mk_diag; rewrite Hfile; reflexivity).
  assert (He : error_or_log d s = (ROk tt, s0)) by (apply error_or_log_lenient; exact Hstrict).
  assert (H0 : ps_after s0 = u ++ post) by exact Hs.
  assert (Hne : u ++ post <> []) by (destruct Hstop; destruct u; discriminate).
  destruct (u ++ post) as [|t0 a0] eqn:Ea; [contradiction|].
  set (s0' := upd_last (upd_cursor s0 (t0 :: ps_before s0) a0 (S (ps_pos s0))) (tk_line t0)).
  assert (Hg : get_token c s0 = (ROk t0, s0')) by (apply get_token_cons; exact H0).
  set (s1 := upd_cursor s0' (ps_before s0) (t0 :: a0) (pred (S (ps_pos s0)))).
  assert (Hundo : undo_get_token s0' = (ROk tt, s1)) by reflexivity.
  assert (H1 : ps_after s1 = u ++ post) by (rewrite Ea; reflexivity).
  unfold handle_unknown_taggedstruct_tag.
  rewrite (bindM_ok _ _ _ _ _ Hd). rewrite (bindM_ok _ _ _ _ _ He).
  rewrite (bindM_ok _ _ _ _ _ Hg). rewrite (bindM_ok _ _ _ _ _ Hundo).
  replace (length (ps_after s1)) with (length u + length post) by (rewrite H1, app_length; reflexivity).
  rewrite (unknown_loop_kw stop u Hu _ c _ tag s1 post); [| exact H1 | lia].
  set (s2 := consume s1 u).
  assert (H2 : ps_after s2 = post) by (apply consume_after; exact H1).
  assert (HL : ps_log s2 = d :: ps_log s) by (destruct (consume_log s1 u) as (L & _ & _); exact L).
  replace (S (length u + length post) - length u) with (S (length post)) by lia.
  clear Ea H0 H1 Hs. destruct Hstop as [te p Hte | ti p Hti Hmem | tb ti p Htb Hti Hmem].
  - (* /end of the enclosing block: balance -1, step back *)
    set (s3 := upd_last (upd_cursor s2 (te :: ps_before s2) p (S (ps_pos s2))) (tk_line te)).
    assert (Hg2 : get_token c s2 = (ROk te, s3)) by (apply get_token_cons; exact H2).
    cbn [unknown_loop length]. rewrite (bindM_ok _ _ _ _ _ Hg2). rewrite Hte.
    replace (0 - 1 =? -1)%Z with true by reflexivity.
    eexists. split; [reflexivity|]. split; [reflexivity|]. cbn [ps_log upd_cursor upd_last]. exact HL.
  - (* a sibling keyword *)
    set (s3 := upd_last (upd_cursor s2 (ti :: ps_before s2) p (S (ps_pos s2))) (tk_line ti)).
    assert (Hg2 : get_token c s2 = (ROk ti, s3)) by (apply get_token_cons; exact H2).
    cbn [unknown_loop length]. rewrite (bindM_ok _ _ _ _ _ Hg2). rewrite Hti. cbn [andb].
    replace ((0 =? 0)%Z || (0 =? 1)%Z) with true by reflexivity. rewrite Hmem. cbn [andb].
    replace (0 =? 1)%Z with false by reflexivity.
    assert (Hu3 : undo_get_token s3 = (ROk tt, upd_cursor s3 (ps_before s2) (ti :: p) (pred (S (ps_pos s2))))) by reflexivity.
    rewrite (bindM_ok _ _ _ _ _ Hu3). unfold ret.
    eexists. split; [reflexivity|]. split; [reflexivity|]. cbn [ps_log upd_cursor upd_last]. exact HL.
  - (* a sibling block: /begin TAG, balance 1, step back twice *)
    set (s3 := upd_last (upd_cursor s2 (tb :: ps_before s2) (ti :: p) (S (ps_pos s2))) (tk_line tb)).
    assert (Hg2 : get_token c s2 = (ROk tb, s3)) by (apply get_token_cons; exact H2).
    cbn [unknown_loop length]. rewrite (bindM_ok _ _ _ _ _ Hg2). rewrite Htb.
    set (s4 := upd_last (upd_cursor s3 (ti :: ps_before s3) p (S (ps_pos s3))) (tk_line ti)).
    assert (Hg3 : get_token c s3 = (ROk ti, s4)) by (apply get_token_cons; reflexivity).
    cbn [unknown_loop]. rewrite (bindM_ok _ _ _ _ _ Hg3). rewrite Hti. cbn [andb].
    replace ((0 + 1 =? 0)%Z || (0 + 1 =? 1)%Z) with true by reflexivity. rewrite Hmem. cbn [andb].
    replace (0 + 1 =? 1)%Z with true by reflexivity.
    assert (Hu4 : undo_get_token s4 = (ROk tt, upd_cursor s4 (ps_before s3) (ti :: p) (pred (S (ps_pos s3))))) by reflexivity.
    rewrite (bindM_ok _ _ _ _ _ Hu4).
    set (s5 := upd_cursor s4 (ps_before s3) (ti :: p) (pred (S (ps_pos s3)))).
    assert (Hu5 : undo_get_token s5 = (ROk tt, upd_cursor s5 (ps_before s2) (tb :: ti :: p) (pred (ps_pos s5)))) by reflexivity.
    rewrite Hu5.
    eexists. split; [reflexivity|]. split; [reflexivity|]. cbn [ps_log upd_cursor upd_last]. exact HL.
Qed.

(* strict mode: the unknown element is an error that names it *)
Theorem unknown_strict_names_tag c tag is_block stop s :
  ps_strict s = true -> Nat.ltb (c_fileid c) (ps_nfiles s) = true ->
  handle_unknown_taggedstruct_tag c tag is_block stop s =
    (RErr (mkDiag "UnknownSubBlock" (Some (ps_last s)) (c_fileid c) tag), s).
Proof.
  intros Hs Hf. unfold handle_unknown_taggedstruct_tag.
  assert (Hd : mk_diag "UnknownSubBlock" c tag s = (ROk (mkDiag "UnknownSubBlock" (Some (ps_last s)) (c_fileid c) tag), s))
    by (unfold mk_diag; rewrite Hf; reflexivity).
  rewrite (bindM_ok _ _ _ _ _ Hd). unfold bindM. rewrite error_or_log_strict by exact Hs. reflexivity.
Qed.
