(** C05, the parser's side of the line bookkeeping: the offset that the parser stores for a token is the line of that
    token minus the line of the token in front of it (or minus 1 for the first token of the file). *)
From Coq Require Import Ascii String List Bool NArith ZArith Lia Sorting.Sorted.
From A2L Require Import Text.Escape Text.IntText Lex.Tokenizer Gram.Spec A2ml.Types Gram.PState Proofs.CursorProofs.
Import ListNotations.
Local Open Scope N_scope.

(* the line in front of the cursor: the last token taken, or line 1 at the start of the file *)
Definition line_of (l : list token) : N := match l with t :: _ => tk_line t | [] => 1 end.
Definition prevl (s : pstate) : N := line_of (ps_before s).
Definition last_line (p : N) (ts : list token) : N := match rev ts with t :: _ => tk_line t | [] => p end.

(* the stored offsets [offs] (None: a token whose offset is not stored) against the lines of the tokens [ts] *)
Fixpoint lines_as (prev : N) (ts : list token) (offs : list (option N)) : Prop :=
  match ts, offs with
  | [], [] => True
  | t :: r, o :: q => match o with Some off => off = tk_line t - prev | None => True end /\ lines_as (tk_line t) r q
  | _, _ => False
  end.

Lemma last_line_app p a b : last_line p (a ++ b) = last_line (last_line p a) b.
Proof.
  unfold last_line. rewrite rev_app_distr. destruct (rev b) as [|t r]; [reflexivity|]. reflexivity.
Qed.
Lemma last_line_single p t : last_line p [t] = tk_line t.
Proof. reflexivity. Qed.
Lemma last_line_nil p : last_line p [] = p.
Proof. reflexivity. Qed.

Lemma lines_as_app : forall a p x b y, lines_as p a x -> lines_as (last_line p a) b y -> lines_as p (a ++ b) (x ++ y).
Proof.
  induction a as [|t a IH]; intros p x b y Ha Hb.
  - destruct x; [exact Hb | destruct Ha].
  - destruct x as [|o x]; [destruct Ha|]. destruct Ha as [H1 H2]. cbn [app lines_as]. split; [exact H1|].
    apply IH; [exact H2|]. replace (last_line (tk_line t) a) with (last_line p (t :: a)); [exact Hb|].
    change (t :: a) with ([t] ++ a). rewrite last_line_app. reflexivity.
Qed.

Lemma lines_as_nil p : lines_as p [] [].
Proof. exact Logic.I. Qed.

Lemma adv_prevl ts s s' : adv ts s s' -> prevl s' = last_line (prevl s) ts.
Proof.
  intros A. unfold prevl, last_line. rewrite (adv_before _ _ _ A). destruct (rev ts); reflexivity.
Qed.

(* the first line recorded in the state is the line of the first token *)
Definition first_ok (s : pstate) : Prop :=
  ps_first_line s = match tokens_of s with t :: _ => Some (tk_line t) | [] => None end.

Lemma first_ok_adv ts s s' : adv ts s s' -> first_ok s -> first_ok s'.
Proof. intros A H. unfold first_ok in *. rewrite (adv_tokens _ _ _ A), (se_first _ _ (adv_static _ _ _ A)). exact H. Qed.

Lemma first_ok_init toks strict n ftab : first_ok (init_state toks strict n ftab).
Proof. unfold first_ok, tokens_of. cbn. destruct toks; reflexivity. Qed.

(* what get_line_offset returns behind a token that is not the last one of the file *)
Lemma glo_value s cur b : Inv s -> first_ok s -> ps_before s = cur :: b -> ps_after s <> [] ->
  get_line_offset s = (ROk (tk_line cur - line_of b), s).
Proof.
  intros I Hfo Eb Hne. unfold get_line_offset. rewrite Eb.
  destruct b as [|p b'].
  - (* the first token of the file *)
    unfold first_ok, tokens_of in Hfo. rewrite Eb in Hfo. cbn [rev app] in Hfo. rewrite Hfo.
    pose proof (inv_toks s I) as F. unfold tokens_of in F. rewrite Eb in F. cbn [rev app] in F.
    inversion F as [|? ? (_ & _ & _ & Hl) _]. destruct (N.leb_spec 1 (tk_line cur)); [reflexivity | lia].
  - destruct (ps_after s) as [|nx a] eqn:Ea; [congruence|].
    rewrite (inv_kept s I). cbn [find_prev opt_nat_eqb].
    assert (Tp : tok_ok p).
    { pose proof (inv_toks s I) as F. unfold tokens_of in F. rewrite Eb in F. apply Forall_app in F. destruct F as [F _].
      apply Forall_rev in F. rewrite rev_involutive in F. inversion F as [|? ? _ F2]; subst. inversion F2; assumption. }
    assert (Tc : tok_ok cur).
    { pose proof (inv_toks s I) as F. unfold tokens_of in F. rewrite Eb in F. apply Forall_app in F. destruct F as [F _].
      apply Forall_rev in F. rewrite rev_involutive in F. inversion F; assumption. }
    destruct Tp as (Fp & Cp & _). destruct Tc as (Fc & _).
    rewrite (ttype_eqb_neq _ _ Cp). rewrite andb_false_r. cbn [andb negb].
    rewrite (ttype_eqb_neq _ _ Cp). cbn [andb].
    rewrite Fp, Fc. cbn [Nat.eqb line_of].
    pose proof (inv_mono s I) as Mo. unfold tokens_of in Mo. rewrite Eb, Ea in Mo.
    apply sorted_rev_cons_app in Mo. destruct (N.leb_spec (tk_line p) (tk_line cur)); [reflexivity | lia].
Qed.

(* behind a run that took the tokens ts (at least one) *)
Lemma glo_after ts t s s1 : Inv s -> first_ok s -> adv (ts ++ [t]) s s1 -> ps_after s1 <> [] ->
  get_line_offset s1 = (ROk (tk_line t - last_line (prevl s) ts), s1).
Proof.
  intros I Hfo A Hne.
  assert (Eb : ps_before s1 = t :: (rev ts ++ ps_before s)).
  { rewrite (adv_before _ _ _ A), rev_app_distr. reflexivity. }
  rewrite (glo_value s1 t _ (adv_inv _ _ _ I A) (first_ok_adv _ _ _ A Hfo) Eb Hne). f_equal. f_equal. f_equal.
  unfold last_line, prevl, line_of. destruct (rev ts); reflexivity.
Qed.
