(** unescape inverts escape; the tokenizer cuts a written string exactly at its closing quote. *)
From Coq Require Import Ascii String List Bool Arith Lia.
From A2L Require Import Text.Escape.
Import ListNotations.
Local Open Scope char_scope.

Lemma aeq_true a b : aeq a b = true <-> a = b.
Proof. unfold aeq. apply Ascii.eqb_eq. Qed.
Lemma aeq_refl a : aeq a a = true.
Proof. apply aeq_true. reflexivity. Qed.

Definition special (c : ascii) : bool :=
  aeq c sq || aeq c dq || aeq c bs || aeq c cr || aeq c lf || aeq c tab.

Lemma unescape_cons_plain a rest :
  aeq a bs = false -> aeq a dq = false -> unescape (a :: rest) = a :: unescape rest.
Proof.
  intros H1 H2. destruct rest as [|b r]; [reflexivity|]. cbn [unescape]. rewrite H1, H2. reflexivity.
Qed.

Lemma unescape_esc1 c rest : unescape (esc1 c ++ rest) = c :: unescape rest.
Proof.
  unfold esc1.
  destruct (aeq c sq) eqn:E1.
  { apply aeq_true in E1; subst c. reflexivity. }
  destruct (aeq c dq) eqn:E2.
  { apply aeq_true in E2; subst c. reflexivity. }
  destruct (aeq c bs) eqn:E3.
  { apply aeq_true in E3; subst c. reflexivity. }
  cbn [orb].
  destruct (aeq c cr) eqn:E4.
  { apply aeq_true in E4; subst c. reflexivity. }
  destruct (aeq c lf) eqn:E5.
  { apply aeq_true in E5; subst c. reflexivity. }
  destruct (aeq c tab) eqn:E6.
  { apply aeq_true in E6; subst c. reflexivity. }
  cbn [app]. apply unescape_cons_plain; assumption.
Qed.

Theorem unescape_escape s : unescape (escape s) = s.
Proof.
  induction s as [|c r IH]; [reflexivity|].
  unfold escape in *. cbn [flat_map]. rewrite unescape_esc1. rewrite IH. reflexivity.
Qed.

(* the scanner state returns to (false,false) after every escaped unit *)
Lemma fse_esc1 c rest n : fse (esc1 c ++ rest) false false n = fse rest false false (n + length (esc1 c)).
Proof.
  unfold esc1.
  destruct (aeq c sq) eqn:E1.
  { apply aeq_true in E1; subst c. cbn. f_equal; lia. }
  destruct (aeq c dq) eqn:E2.
  { apply aeq_true in E2; subst c. cbn. f_equal; lia. }
  destruct (aeq c bs) eqn:E3.
  { apply aeq_true in E3; subst c. cbn. f_equal; lia. }
  cbn [orb].
  destruct (aeq c cr) eqn:E4.
  { cbn. f_equal; lia. }
  destruct (aeq c lf) eqn:E5.
  { cbn. f_equal; lia. }
  destruct (aeq c tab) eqn:E6.
  { cbn. f_equal; lia. }
  cbn [app fse length]. rewrite E2, E3. f_equal; lia.
Qed.

Lemma fse_escape s rest n : fse (escape s ++ rest) false false n = fse rest false false (n + length (escape s)).
Proof.
  revert n; induction s as [|c r IH]; intros n; unfold escape in *; cbn [flat_map].
  - cbn. f_equal; lia.
  - rewrite <- app_assoc, fse_esc1, IH, app_length. f_equal; lia.
Qed.

Definition not_quote_first (rest : bytes) : Prop :=
  match rest with [] => True | c :: _ => aeq c dq = false end.

(* the text written for a string value [s] is  "  escape s  " ; scanning from behind the opening quote
   finds exactly its closing quote, whatever follows (unless another quote follows immediately) *)
Theorem string_token_exact s rest : not_quote_first rest ->
  find_string_end (escape s ++ dq :: rest) = Some (length (escape s) + 1).
Proof.
  intros H. unfold find_string_end. rewrite fse_escape. cbn [fse]. rewrite aeq_refl. cbn.
  destruct rest as [|c r]; cbn.
  - f_equal; lia.
  - simpl in H. rewrite H. f_equal; lia.
Qed.
