(** C16: the include expansion of the tokenizer - a file without directives is left alone, a directive whose file cannot
    be read (or that has no name) is an error that names it and never a partial result, and everything that is pulled in
    through nested includes is attributed to a directive of the main file. *)
From Coq Require Import Ascii String List Bool NArith Lia Arith Wf_nat.
From A2L Require Import Text.Escape Lex.Tokenizer Lex.Include.
Import ListNotations.

Definition no_include (toks : list token) : Prop := Forall (fun t => ttype_eqb (tk_type t) TInclude = false) toks.

Lemma expand_no_include fs rec f next toks : no_include toks -> forall out files,
  expand fs rec f next toks out files = IOk (rev_append out [] ++ toks) files.
Proof.
  induction 1 as [|t r Ht Hr IH]; intros out files; simpl.
  - rewrite app_nil_r. reflexivity.
  - rewrite Ht. rewrite IH. simpl. rewrite !rev_append_rev. simpl. rewrite !app_nil_r, <- app_assoc. reflexivity.
Qed.

(** a file without /include is tokenised as it is; it is the only file *)
Theorem no_include_identity fs fuel f fileid text toks :
  tokenize_core fileid text = TOk toks -> no_include toks ->
  tokenize_inc fs (S fuel) f fileid text = IOk toks [f].
Proof.
  intros Ht Hn. simpl. rewrite Ht. rewrite expand_no_include by exact Hn. reflexivity.
Qed.

Definition is_name (t : token) : bool := ttype_eqb (tk_type t) TString || ttype_eqb (tk_type t) TIdentifier.

(** the first directive whose file cannot be read is an IncludeFileError carrying the line and the text of the
    directive and the name of the file it stands in - whatever follows, never a (partial) result *)
Theorem missing_include_is_error fs rec f next pre inc nt rest out files :
  no_include pre -> ttype_eqb (tk_type inc) TInclude = true -> is_name nt = true ->
  fs (fn_full f) (include_name nt) = None ->
  expand fs rec f next (pre ++ inc :: nt :: rest) out files = IErr (EIncludeFile (tk_line nt)) (fn_display f) (include_name nt).
Proof.
  intros Hp Hi Hn Hfs. revert out. induction Hp as [|t r Ht Hr IH]; intros out; simpl.
  - rewrite Hi. unfold is_name in Hn. rewrite Hn, Hfs. reflexivity.
  - rewrite Ht. apply IH.
Qed.

(** a directive that is not followed by a name is an IncompleteIncludeError *)
Theorem include_without_name_is_error fs rec f next pre inc rest out files :
  no_include pre -> ttype_eqb (tk_type inc) TInclude = true ->
  match rest with nt :: _ => is_name nt = false | [] => True end ->
  expand fs rec f next (pre ++ inc :: rest) out files = IErr (EIncompleteInclude (tk_line inc)) (fn_display f) [].
Proof.
  intros Hp Hi Hr. revert out. induction Hp as [|t r Ht Hr' IH]; intros out; simpl.
  - rewrite Hi. destruct rest as [|nt r']; [reflexivity|]. unfold is_name in Hr. rewrite Hr. reflexivity.
  - rewrite Ht. apply IH.
Qed.

(* ---------- attribution of nested includes ---------- *)
(* the names of the directives written in a token list *)
Fixpoint directives (toks : list token) : list bytes :=
  match toks with
  | t :: ((nt :: _) as r) => if ttype_eqb (tk_type t) TInclude then include_name nt :: directives r else directives r
  | _ => []
  end.

(* every file entered below [f] is attributed to: the directive f itself is attributed to, or - when f is the main
   file - a directive written in f *)
Definition attributed (f : fname) (ds : list bytes) (g : fname) : Prop :=
  match fn_top f with
  | Some d => fn_top g = Some d
  | None => exists d, fn_top g = Some d /\ In d ds
  end.

Lemma attributed_weaken f ds ds' g : incl ds ds' -> attributed f ds g -> attributed f ds' g.
Proof. unfold attributed. destruct (fn_top f); auto. intros Hi (d & E & Hd). exists d. auto. Qed.

Definition rec_ok (rec : fname -> nat -> bytes -> ires) : Prop :=
  forall g n text toks files, rec g n text = IOk toks files ->
    exists rest, files = g :: rest /\ forall h, In h rest -> attributed g (match tokenize_core n text with TOk t => directives t | _ => [] end) h.

Lemma child_attributed f full incname ds : In incname ds -> attributed f ds (child_name f full incname).
Proof.
  unfold attributed, child_name. simpl. destruct (fn_top f) as [d|]; [reflexivity|]. intros H. exists incname. auto.
Qed.

(* what is below a child is attributed like the child *)
Lemma below_child f full incname ds h ds' : In incname ds ->
  attributed (child_name f full incname) ds' h -> attributed f ds h.
Proof.
  unfold attributed, child_name. simpl. destruct (fn_top f) as [d|]; [auto|]. intros Hin E. exists incname. auto.
Qed.

Lemma directives_cons_incl t r : incl (directives r) (directives (t :: r)).
Proof.
  destruct r as [|nt r']; simpl; [intros x []|]. destruct (ttype_eqb (tk_type t) TInclude); [apply incl_tl|]; apply incl_refl.
Qed.

Lemma expand_attributed fs rec f : rec_ok rec -> forall toks next out files toks' files',
  expand fs rec f next toks out files = IOk toks' files' ->
  exists more, files' = files ++ more /\ forall h, In h more -> attributed f (directives toks) h.
Proof.
  intros Hrec. intros toks. remember (length toks) as n eqn:Hn. revert toks Hn.
  induction n as [n IH] using lt_wf_ind. intros toks Hn next out files toks' files' H.
  destruct toks as [|t r]; simpl in H.
  - inversion H; subst. exists []. rewrite app_nil_r. split; [reflexivity | intros h []].
  - destruct (ttype_eqb (tk_type t) TInclude) eqn:Et.
    + destruct r as [|nt r']; [discriminate|].
      destruct (ttype_eqb (tk_type nt) TString || ttype_eqb (tk_type nt) TIdentifier); [|discriminate].
      destruct (fs (fn_full f) (include_name nt)) as [[full text]|] eqn:Efs; [|discriminate].
      destruct (rec (child_name f full (include_name nt)) next text) as [ctoks cfiles| | |] eqn:Er; try discriminate.
      destruct (Hrec _ _ _ _ _ Er) as (crest & Ecf & Hc).
      assert (Hin : In (include_name nt) (directives (t :: nt :: r'))) by (simpl; rewrite Et; left; reflexivity).
      destruct (IH (length r')) with (toks := r') (next := next + length cfiles) (out := rev_append ctoks out)
        (files := files ++ cfiles) (toks' := toks') (files' := files') as (more & Em & Hm); [simpl in Hn; lia | reflexivity | exact H |].
      exists (cfiles ++ more). split; [rewrite Em, app_assoc; reflexivity|].
      intros h Hh. apply in_app_or in Hh. destruct Hh as [Hh|Hh].
      * subst cfiles. destruct Hh as [<-|Hh]; [apply child_attributed; exact Hin|].
        eapply below_child; [exact Hin | apply Hc; exact Hh].
      * eapply attributed_weaken; [|apply Hm; exact Hh].
        eapply incl_tran; [apply directives_cons_incl | apply directives_cons_incl].
    + destruct (IH (length r)) with (toks := r) (next := next) (out := t :: out) (files := files) (toks' := toks') (files' := files')
        as (more & Em & Hm); [simpl in Hn; lia | reflexivity | exact H |].
      exists more. split; [exact Em|]. intros h Hh. eapply attributed_weaken; [apply directives_cons_incl | apply Hm; exact Hh].
Qed.

Lemma tokenize_inc_rec_ok fs fuel : rec_ok (tokenize_inc fs fuel).
Proof.
  induction fuel as [|k IH]; intros g n text toks files H; simpl in H; [discriminate|].
  destruct (tokenize_core n text) as [t| | |] eqn:Et; try discriminate.
  destruct (expand_attributed fs (tokenize_inc fs k) g IH _ _ _ _ _ _ H) as (more & Em & Hm).
  exists more. split; [exact Em|]. exact Hm.
Qed.

(** every file that is entered while the main file is tokenised - at any depth - is attributed to an /include directive
    written in the main file: writing that directive once reproduces everything it pulled in *)
Theorem nested_includes_belong_to_a_directive_of_the_main_file fs fuel main text toks files :
  fn_top main = None -> tokenize_inc fs fuel main 0 text = IOk toks files ->
  exists rest, files = main :: rest /\
    forall h, In h rest -> exists d, fn_top h = Some d /\
      In d (match tokenize_core 0 text with TOk t => directives t | _ => [] end).
Proof.
  intros Hm H. destruct (tokenize_inc_rec_ok fs fuel _ _ _ _ _ H) as (rest & E & Hr).
  exists rest. split; [exact E|]. intros h Hh. specialize (Hr h Hh). unfold attributed in Hr. rewrite Hm in Hr. exact Hr.
Qed.
