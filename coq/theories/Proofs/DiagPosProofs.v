(** C06, last clause ("every diagnostic carries the file and line ..."): every diagnostic that the parser reports - as the
    error it returns or as an entry of the log - carries a line (and the file id of the element it was found in, which
    mk_diag reads from the context), with the two exceptions that are the recorded finding: MissingVersionInfo and
    InvalidVersion.  Proved for every function of Gram/Parser.v up to parse_file, for every grammar and every input.

    [dp P m]: started with a log of positioned diagnostics, [m] ends with such a log, an error it returns is positioned,
    and a value it returns satisfies P. *)
From Coq Require Import Ascii String List Bool NArith ZArith Lia.
From A2L Require Import Text.Escape Text.IntText Lex.Tokenizer Gram.Spec A2ml.Types Gram.PState Gram.Parser Proofs.TerminationProofs.
Import ListNotations.

Definition posd (d : diag) : Prop :=
  d_line d <> None \/ d_variant d = "MissingVersionInfo"%string \/ d_variant d = "InvalidVersion"%string.

Definition dp {A} (P : A -> Prop) (m : M A) : Prop :=
  forall s r s', Forall posd (ps_log s) -> m s = (r, s') ->
    Forall posd (ps_log s') /\ (forall d, r = RErr d -> posd d) /\ (forall a, r = ROk a -> P a).

Definition any {A} (_ : A) : Prop := True.

Lemma dp_post {A} (P Q : A -> Prop) m : dp P m -> (forall a, P a -> Q a) -> dp Q m.
Proof. intros H HQ s r s' L E. destruct (H s r s' L E) as (H1 & H2 & H3). repeat split; auto. Qed.

Lemma dp_ret {A} (P : A -> Prop) a : P a -> dp P (ret a).
Proof. intros H s r s' L E. injection E as <- <-. repeat split; [exact L | discriminate | intros x Hx; injection Hx as <-; exact H]. Qed.
Lemma dp_fail {A} (P : A -> Prop) d : posd d -> dp P (@fail A d).
Proof. intros H s r s' L E. injection E as <- <-. repeat split; [exact L | intros x Hx; injection Hx as <-; exact H | discriminate]. Qed.
Lemma dp_panic {A} (P : A -> Prop) x : dp P (@panic A x).
Proof. intros s r s' L E. injection E as <- <-. repeat split; [exact L | discriminate | discriminate]. Qed.
Lemma dp_fuel {A} (P : A -> Prop) : dp P (@out_of_fuel A).
Proof. intros s r s' L E. injection E as <- <-. repeat split; [exact L | discriminate | discriminate]. Qed.

Lemma dp_bind {A B} (P : A -> Prop) (Q : B -> Prop) (m : M A) (f : A -> M B) :
  dp P m -> (forall a, P a -> dp Q (f a)) -> dp Q (bindM m f).
Proof.
  intros Hm Hf s r s' L E. unfold bindM in E. destruct (m s) as [r1 s1] eqn:E1. destruct (Hm s r1 s1 L E1) as (L1 & D1 & V1).
  destruct r1 as [a| | |].
  - exact (Hf a (V1 a eq_refl) s1 r s' L1 E).
  - injection E as <- <-. repeat split; [exact L1 | intros d0 Hd; injection Hd as <-; exact (D1 d eq_refl) | discriminate].
  - injection E as <- <-. repeat split; [exact L1 | discriminate | discriminate].
  - injection E as <- <-. repeat split; [exact L1 | discriminate | discriminate].
Qed.

Lemma dp_try {A} (P : A -> Prop) (m : M A) : dp P m ->
  dp (fun x => match x with (Some a, _) => P a | (None, Some d) => posd d | _ => True end) (try m).
Proof.
  intros Hm s r s' L E. unfold try in E. destruct (m s) as [r1 s1] eqn:E1. destruct (Hm s r1 s1 L E1) as (L1 & D1 & V1).
  destruct r1 as [a|d| |]; injection E as <- <-; (split; [exact L1|]); (split; [discriminate|]); intros x Hx; try discriminate;
    injection Hx as <-; [exact (V1 a eq_refl) | exact (D1 d eq_refl)].
Qed.

(* computations that do not touch the log and do not fail *)
Definition quiet {A} (m : M A) : Prop := forall s, ps_log (snd (m s)) = ps_log s /\ (forall d, fst (m s) <> RErr d).
Lemma dp_quiet {A} (m : M A) : quiet m -> dp any m.
Proof.
  intros H s r s' L E. destruct (H s) as [H1 H2]. rewrite E in H1, H2. cbn [fst snd] in *. rewrite H1.
  repeat split; [exact L | intros d Hd; exfalso; exact (H2 d Hd)].
Qed.
Lemma dp_still {A} (m : M A) : still m -> (forall s d, fst (m s) <> RErr d) -> (forall s, ps_log (snd (m s)) = ps_log s) -> dp any m.
Proof. intros _ H1 H2. apply dp_quiet. intros s. split; [apply H2 | apply H1]. Qed.

Lemma dp_mk_diag v c k : dp posd (mk_diag v c k).
Proof.
  intros s r s' L E. unfold mk_diag in E. destruct (Nat.ltb (c_fileid c) (ps_nfiles s)); injection E as <- <-;
    (split; [exact L|]); (split; [discriminate|]); intros a Ha; try discriminate. injection Ha as <-. left. discriminate.
Qed.
Lemma dp_error_or_log d : posd d -> dp any (error_or_log d).
Proof.
  intros H s r s' L E. unfold error_or_log in E. destruct (ps_strict s); injection E as <- <-.
  - repeat split; [exact L | intros x Hx; injection Hx as <-; exact H].
  - repeat split; [constructor; assumption | discriminate].
Qed.
Lemma dp_log_warning d : posd d -> dp any (log_warning d).
Proof. intros H s r s' L E. injection E as <- <-. repeat split; [constructor; assumption | discriminate]. Qed.

Ltac quiet_tac := intros s; split; [try reflexivity | intros d; try discriminate].
Lemma dp_get_tokenpos : dp any get_tokenpos. Proof. apply dp_quiet. quiet_tac. Qed.
Lemma dp_remaining : dp any remaining. Proof. apply dp_quiet. quiet_tac. Qed.
Lemma dp_peek : dp any peek_token. Proof. apply dp_quiet. quiet_tac. Qed.
Lemma dp_get_next_id : dp any get_next_id. Proof. apply dp_quiet. quiet_tac. Qed.
Lemma dp_get_incfilename f : dp any (get_incfilename f). Proof. apply dp_quiet. quiet_tac. Qed.
Lemma dp_get_specs : dp any get_specs. Proof. apply dp_quiet. quiet_tac. Qed.
Lemma dp_push_spec t : dp any (push_spec t). Proof. apply dp_quiet. quiet_tac. Qed.
Lemma dp_set_file_version v : dp any (set_file_version v). Proof. apply dp_quiet. quiet_tac. Qed.
Lemma dp_set_kept k : dp any (fun s => (ROk tt, upd_kept s k)). Proof. apply dp_quiet. quiet_tac. Qed.
Lemma dp_cursor_next : dp any cursor_next.
Proof. apply dp_quiet. intros s. unfold cursor_next. destruct (ps_after s); (split; [reflexivity | intros d; discriminate]). Qed.
Lemma dp_undo : dp any undo_get_token.
Proof. apply dp_quiet. intros s. unfold undo_get_token. destruct (ps_before s); (split; [reflexivity | intros d; discriminate]). Qed.
Lemma dp_set_tokenpos n : dp any (set_tokenpos n).
Proof.
  apply dp_quiet. intros s. unfold set_tokenpos.
  destruct (if Nat.leb n (ps_pos s) then move_back (ps_pos s - n) (ps_before s) (ps_after s)
            else move_fwd (n - ps_pos s) (ps_before s) (ps_after s)) as [x y]. split; [reflexivity | intros d; discriminate].
Qed.
Lemma dp_get_line_offset : dp any get_line_offset.
Proof.
  apply dp_quiet. intros s. unfold get_line_offset.
  repeat match goal with |- context [match ?x with _ => _ end] => destruct x end; (split; [reflexivity | intros d; discriminate]).
Qed.

Lemma dp_eof_diag c : dp posd (eof_diag c).
Proof. apply dp_mk_diag. Qed.

Lemma dp_get_token c : dp any (get_token c).
Proof.
  intros s r s' L E. unfold get_token in E. destruct (ps_after s).
  - assert (M1 : dp any (bindM (eof_diag c) (@fail token))) by (eapply dp_bind; [apply dp_eof_diag | intros d Hd; apply dp_fail; exact Hd]).
    exact (M1 s r s' L E).
  - injection E as <- <-. repeat split; [exact L | discriminate].
Qed.

Global Hint Resolve dp_get_tokenpos dp_remaining dp_peek dp_get_next_id dp_get_incfilename dp_get_specs dp_push_spec dp_set_file_version
  dp_set_kept dp_cursor_next dp_undo dp_set_tokenpos dp_get_line_offset dp_eof_diag dp_get_token dp_mk_diag dp_fuel dp_panic : dp.
Global Hint Extern 1 (dp _ (error_or_log _)) => eapply dp_error_or_log; assumption : dp.
Global Hint Extern 1 (dp _ (log_warning _)) => eapply dp_log_warning; assumption : dp.
Global Hint Extern 1 (dp _ (fail _)) => eapply dp_fail; assumption : dp.

Ltac dpt :=
  cbv beta;
  lazymatch goal with
  | |- dp _ (bindM (try _) _) =>
      eapply dp_bind; [ eapply dp_try; dp_head | intros [[?|] [?|]] ?; dpt ]
  | |- dp _ (bindM _ _) => eapply dp_bind; [ dp_head | intros ? ?; dpt ]
  | |- dp _ (match ?x with _ => _ end) => destruct x; dpt
  | |- dp _ (ret _) => apply dp_ret; try exact I
  | |- dp _ (fail _) => apply dp_fail; assumption
  | |- dp _ (panic _) => apply dp_panic
  | |- dp _ out_of_fuel => apply dp_fuel
  | |- _ => first [ eapply dp_post; [ solve [eauto 3 with dp] | intros; exact I ] | idtac ]
  end
with dp_head :=
  first [ solve [eauto 3 with dp]
        | lazymatch goal with |- @dp ?A ?P _ => is_evar P; unify P (@any A) end; dpt ].

(* ---------- Gram/PState.v ---------- *)
Lemma dp_read {A B} (P : A -> Prop) (g : pstate -> B) (k : B -> M A) : (forall x, dp P (k x)) -> dp P (fun s => k (g s) s).
Proof. intros Hk s r s' L E. exact (Hk (g s) s r s' L E). Qed.

Lemma dp_expect_loop c ty : forall fuel, dp any (expect_loop fuel c ty).
Proof. induction fuel as [|f IH]; cbn [expect_loop]; dpt. Qed.
Lemma dp_expect_token c ty : dp any (expect_token c ty).
Proof. unfold expect_token. apply (dp_read any (fun s => length (ps_after s)) (fun n => expect_loop (S n) c ty)). intros n. apply dp_expect_loop. Qed.
Global Hint Resolve dp_expect_token : dp.

Lemma dp_get_identifier c : dp any (get_identifier c).
Proof. unfold get_identifier. dpt. Qed.
Global Hint Resolve dp_get_identifier : dp.
Lemma dp_get_string c : dp any (get_string c).
Proof. unfold get_string. dpt. Qed.
Global Hint Resolve dp_get_string : dp.
Lemma dp_get_string_maxlen c n : dp any (get_string_maxlen c n).
Proof. unfold get_string_maxlen. dpt. Qed.
Lemma dp_get_integer t c : dp any (get_integer t c).
Proof. unfold get_integer. dpt. Qed.
Global Hint Resolve dp_get_string_maxlen dp_get_integer : dp.

Lemma dp_get_double c : dp any (get_double c).
Proof.
  unfold get_double. eapply dp_bind; [dp_head|]. intros tok _. cbv zeta. destruct (starts_0x (tk_text tok)); [dpt|].
  intros s r s' L E. destruct (find_fentry (ps_ftab s) (tk_text tok)) as [e|].
  - destruct (fe_ok e && (fe_bits e mod 2 ^ 63 <? 0x7FF0000000000000)%N).
    + injection E as <- <-. repeat split; [exact L | discriminate].
    + assert (M1 : dp any (bindM (mk_diag "MalformedNumber" c (tk_text tok)) (@fail N))) by dpt. exact (M1 s r s' L E).
  - injection E as <- <-. repeat split; [exact L | discriminate].
Qed.
Lemma dp_get_float c : dp any (get_float c).
Proof.
  unfold get_float. eapply dp_bind; [dp_head|]. intros tok _. cbv zeta.
  intros s r s' L E. destruct (find_fentry (ps_ftab s) (tk_text tok)) as [e|].
  - destruct (fe_ok32 e && ((fe_bits32 e mod 2 ^ 63 <? 0x7FF0000000000000)%N || starts_0x (tk_text tok))).
    + injection E as <- <-. repeat split; [exact L | discriminate].
    + assert (M1 : dp any (bindM (mk_diag "MalformedNumber" c (tk_text tok)) (@fail N))) by dpt. exact (M1 s r s' L E).
  - injection E as <- <-. repeat split; [exact L | discriminate].
Qed.
Global Hint Resolve dp_get_double dp_get_float : dp.

Lemma dp_version_check (bad : pstate -> bool) v c tag (k : diag -> M unit) : (forall d, posd d -> dp any (k d)) ->
  dp any (fun s => if bad s then bindM (mk_diag v c tag) k s else (ROk tt, s)).
Proof.
  intros Hk s r s' L E. destruct (bad s).
  - assert (M1 : dp any (bindM (mk_diag v c tag) k)) by (eapply dp_bind; [apply dp_mk_diag | exact Hk]). exact (M1 s r s' L E).
  - injection E as <- <-. repeat split; [exact L | discriminate].
Qed.
Lemma dp_cbv_lower c tag v : dp any (check_block_version_lower c tag v).
Proof. apply (dp_version_check (fun s => version_ltb (ps_ver s) v)). intros d H. apply dp_error_or_log. exact H. Qed.
Lemma dp_cbv_upper c tag v : dp any (check_block_version_upper c tag v).
Proof. apply (dp_version_check (fun s => version_ltb v (ps_ver s))). intros d H. apply dp_log_warning. exact H. Qed.
Lemma dp_cev_lower c tag v : dp any (check_enumitem_version_lower c tag v).
Proof. apply (dp_version_check (fun s => version_ltb (ps_ver s) v)). intros d H. apply dp_error_or_log. exact H. Qed.
Lemma dp_cev_upper c tag v : dp any (check_enumitem_version_upper c tag v).
Proof. apply (dp_version_check (fun s => version_ltb v (ps_ver s))). intros d H. apply dp_log_warning. exact H. Qed.
Global Hint Resolve dp_cbv_lower dp_cbv_upper dp_cev_lower dp_cev_upper : dp.

Lemma dp_require_block tag b c : dp any (require_block tag b c).
Proof. unfold require_block. dpt. Qed.
Lemma dp_require_keyword tag b c : dp any (require_keyword tag b c).
Proof. unfold require_keyword. dpt. Qed.
Lemma dp_handle_multiplicity c tag b : dp any (handle_multiplicity_error c tag b).
Proof. unfold handle_multiplicity_error. dpt. Qed.
Global Hint Resolve dp_require_block dp_require_keyword dp_handle_multiplicity : dp.

Lemma dp_next_tag c : dp any (get_next_tag_or_comment c).
Proof. unfold get_next_tag_or_comment. dpt. Qed.
Global Hint Resolve dp_next_tag : dp.

Lemma dp_unknown_loop c errc tag isb stop : forall fuel bal, dp any (unknown_loop fuel c errc tag isb stop bal).
Proof. induction fuel as [|f IH]; intros bal; cbn [unknown_loop]; dpt. Qed.
Lemma dp_handle_unknown c tag isb stop : dp any (handle_unknown_taggedstruct_tag c tag isb stop).
Proof.
  unfold handle_unknown_taggedstruct_tag. eapply dp_bind; [dp_head|]. intros d Hd. eapply dp_bind; [dp_head|]. intros u _.
  eapply dp_bind; [dp_head|]. intros t0 _. eapply dp_bind; [dp_head|]. intros u2 _. cbv zeta.
  apply (dp_read any (fun s => length (ps_after s)) (fun n => unknown_loop (S n) c (ctx_from_token (tk_text t0) t0) tag isb stop (if isb then 1%Z else 0%Z))).
  intros n. apply dp_unknown_loop.
Qed.
Global Hint Resolve dp_handle_unknown : dp.

Lemma dp_parse_enum td c : dp any (parse_enum td c).
Proof. unfold parse_enum. dpt. Qed.
Lemma dp_skip_comments c : forall fuel, dp any (skip_comments fuel c).
Proof. induction fuel as [|f IH]; cbn [skip_comments]; dpt. Qed.
Global Hint Resolve dp_parse_enum dp_skip_comments : dp.

(* ---------- Gram/Parser.v ---------- *)
Lemma dp_unknown : forall fuel, (forall c b, dp any (unknown_ifdata fuel c b)) /\ (forall c, dp any (unknown_taggedstruct fuel c)).
Proof.
  induction fuel as [|f [IH1 IH2]]; [split; intros; apply dp_fuel|]. split.
  - intros c b. rewrite unknown_ifdata_S.
    assert (L : forall k x, dp any (ifd_loop_ f c b k x)).
    { induction k as [|k IHk]; intros x; cbn [ifd_loop_]; dpt. }
    dpt.
  - intros c. rewrite unknown_taggedstruct_S.
    assert (L : forall k x, dp any (uts_loop_ f c k x)).
    { induction k as [|k IHk]; intros x; cbn [uts_loop_]; dpt. }
    dpt.
Qed.
Lemma dp_unknown_ifdata fuel c b : dp any (unknown_ifdata fuel c b).
Proof. apply dp_unknown. Qed.
Global Hint Resolve dp_unknown_ifdata : dp.
Lemma dp_unknown_ifdata_start fuel c : dp any (unknown_ifdata_start fuel c).
Proof. unfold unknown_ifdata_start. dpt. Qed.
Global Hint Resolve dp_unknown_ifdata_start : dp.

Lemma dp_int_item v t c : dp any (int_item v t c).
Proof. unfold int_item. dpt. Qed.
Global Hint Resolve dp_int_item : dp.

Section Item.
  Variable rec : a2mlty -> ctx -> M gifd.
  Hypothesis Hrec : forall ty c, dp any (rec ty c).
  Local Hint Resolve Hrec : dp.

  Lemma dp_array_items ty c : forall n, dp any (array_items rec n ty c).
  Proof. induction n as [|n IH]; cbn [array_items]; dpt. Qed.
  Lemma dp_struct_items c : forall tys, dp any (struct_items rec tys c).
  Proof. induction tys as [|ty r IH]; cbn [struct_items]; dpt. Qed.
  Lemma dp_seq_items ty c : forall n acc, dp any (seq_items rec n ty c acc).
  Proof. induction n as [|n IH]; intros acc; cbn [seq_items]; dpt. Qed.
  Lemma dp_tagged_item spec c : dp any (tagged_item rec spec c).
  Proof. unfold tagged_item. dpt. Qed.
  Local Hint Resolve dp_tagged_item : dp.
  Lemma dp_taggedstruct_items spec c : forall n acc, dp any (taggedstruct_items rec n spec c acc).
  Proof. induction n as [|n IH]; intros acc; cbn [taggedstruct_items]; dpt. Qed.
  Local Hint Resolve dp_array_items dp_struct_items dp_seq_items dp_taggedstruct_items : dp.
  Lemma dp_item_step ty c : dp any (item_step rec ty c).
  Proof. unfold item_step. dpt. Qed.
End Item.

Lemma dp_parse_ifdata_item : forall f ty c, dp any (parse_ifdata_item f ty c).
Proof. induction f as [|f IH]; intros ty c; cbn [parse_ifdata_item]; [apply dp_fuel|]. apply dp_item_step. exact IH. Qed.
Global Hint Resolve dp_parse_ifdata_item : dp.
Lemma dp_parse_ifdata_from_spec spec c : dp any (parse_ifdata_from_spec spec c).
Proof. unfold parse_ifdata_from_spec. dpt. Qed.
Global Hint Resolve dp_parse_ifdata_from_spec : dp.
Lemma dp_first_spec c : forall specs, dp any (first_spec specs c).
Proof. induction specs as [|sp r IH]; cbn [first_spec]; dpt. Qed.
Global Hint Resolve dp_first_spec : dp.
Lemma dp_parse_ifdata specs fuel c : dp any (parse_ifdata specs fuel c).
Proof. unfold parse_ifdata. dpt. Qed.
Global Hint Resolve dp_parse_ifdata : dp.
Lemma dp_end_tag_check c e : dp any (end_tag_check c e).
Proof. unfold end_tag_check. dpt. Qed.
Global Hint Resolve dp_end_tag_check : dp.

Lemma dp_multiplicity_check c : forall items kids, dp any (multiplicity_check items kids c).
Proof. induction items as [|ti ir IH]; intros kids; cbn [multiplicity_check]; dpt. Qed.
Global Hint Resolve dp_multiplicity_check : dp.

Section Elem.
  Variable G : spec.
  Variable rec : tydef -> ctx -> N -> M value.
  Variable ifuel : nat.
  Hypothesis Hrec : forall td c off, dp any (rec td c off).
  Local Hint Resolve Hrec : dp.

  Lemma dp_scalar_field ty c : dp any (parse_scalar_field G rec ty c).
  Proof. destruct ty; cbn [parse_scalar_field]; dpt. Qed.
  Local Hint Resolve dp_scalar_field : dp.
  Lemma dp_parse_n ty c : forall n, dp any (parse_n G rec n ty c).
  Proof. induction n as [|n IH]; cbn [parse_n]; dpt. Qed.
  Lemma dp_parse_seq ty stop c : forall n acc, dp any (parse_seq G rec n ty stop c acc).
  Proof. induction n as [|n IH]; intros acc; cbn [parse_seq]; dpt. Qed.
  Local Hint Resolve dp_parse_n dp_parse_seq : dp.
  Lemma dp_parse_field ty c : dp any (parse_field G rec ty c).
  Proof. destruct ty; cbn [parse_field]; dpt. Qed.
  Local Hint Resolve dp_parse_field : dp.

  Lemma dp_special td c off : dp any (parse_special_or_generic rec ifuel td c off).
  Proof.
    unfold parse_special_or_generic. destruct (t_special td) as [sp|]; [|apply Hrec]. destruct (String.eqb sp "A2ml"); [|dpt].
    eapply dp_bind; [dp_head|]. intros inc _. eapply dp_bind; [dp_head|]. intros uid _. eapply dp_bind; [dp_head|]. intros token _.
    eapply dp_bind; [dp_head|]. intros loc _. cbv zeta. eapply (dp_bind any); [|intros u _; dpt].
    intros s r s' L E. destruct (a2ml_lookup (crlf_to_lf (tk_text token)) (ps_a2ml s)) as [[[ty|] msg]|].
    - injection E as <- <-. repeat split; [exact L | discriminate].
    - assert (M1 : dp any (bindM (mk_diag "A2mlError" c msg) error_or_log)) by dpt. exact (M1 s r s' L E).
    - injection E as <- <-. repeat split; [exact L | discriminate].
  Qed.
  Local Hint Resolve dp_special : dp.

  Lemma dp_tagged_loop pb last items c : forall n kids cms, dp any (tagged_loop G rec ifuel n pb last items c kids cms).
  Proof. induction n as [|n IH]; intros kids cms; cbn [tagged_loop]; dpt. Qed.
  Local Hint Resolve dp_tagged_loop : dp.
  Lemma dp_parse_items isb c : forall its fields kids cms, dp any (parse_items G rec ifuel its isb c fields kids cms).
  Proof. induction its as [|it r IH]; intros fields kids cms; cbn [parse_items]; dpt. Qed.
  Local Hint Resolve dp_parse_items : dp.
  Lemma dp_parse_body td c off : dp any (parse_body G rec ifuel td c off).
  Proof. unfold parse_body. dpt. Qed.
End Elem.

Lemma dp_parse_ty G ifuel : forall fuel td c off, dp any (parse_ty fuel G ifuel td c off).
Proof. induction fuel as [|f IH]; intros td c off; cbn [parse_ty]; [apply dp_fuel|]. apply dp_parse_body. exact IH. Qed.
Global Hint Resolve dp_parse_ty : dp.

Lemma posd_missing_version : posd missing_version.
Proof. right. left. reflexivity. Qed.
Lemma posd_invalid_version k : posd (mkDiag "InvalidVersion" None 0 k).
Proof. right. right. reflexivity. Qed.

Lemma dp_parse_version fuel G c : dp any (parse_version fuel G c).
Proof.
  pose proof posd_missing_version as Hm. unfold parse_version.
  eapply dp_bind; [dp_head|]. intros [token|] _; [|dpt].
  eapply dp_bind; [eapply dp_try; dp_head|]. intros [[id|] [dg|]] Hx; cbv zeta; try solve [dpt].
  all: destruct (bytes_eqb id (bytes_of "ASAP2_VERSION")); [|dpt].
  all: destruct (lookup_ty G "Asap2Version") as [td|]; [|apply dp_panic].
  all: eapply dp_bind; [eapply dp_try; dp_head|]; intros r _; eapply dp_bind; [dp_head|]; intros u _.
  all: repeat match goal with |- dp _ (match ?x with _ => _ end) => destruct x end; try solve [dpt].
  all: eapply dp_bind; [apply dp_error_or_log; apply posd_invalid_version|]; intros u2 _; dpt.
Qed.

Theorem dp_parse_file G : dp any (parse_file G).
Proof.
  intros s0 r s' L E. unfold parse_file in E. cbv zeta in E.
  revert E. generalize (S (S (length (ps_after s0)))) (mkCtx (bytes_of "A2L_FILE") 0 match ps_after s0 with t :: _ => tk_line t | [] => 1%N end).
  intros fuel c E. refine (_ s0 r s' L E). clear.
  eapply dp_bind; [apply dp_parse_version|]. intros ver _. eapply dp_bind; [dp_head|]. intros u _.
  destruct (lookup_ty G "A2lFile") as [td|]; [|apply dp_panic].
  eapply dp_bind; [dp_head|]. intros file _. eapply dp_bind; [dp_head|]. intros [token|] _; [|dpt].
  eapply (dp_bind any); [|intros u2 _; dpt].
  intros s r s' L E. destruct (Nat.ltb (tk_fileid token) (ps_nfiles s)).
  - refine (dp_error_or_log _ _ s r s' L E). left. discriminate.
  - injection E as <- <-. repeat split; [exact L | discriminate].
Qed.
Print Assumptions dp_parse_file.
