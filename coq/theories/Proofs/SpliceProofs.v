(** C16, the tokenizer's side of "/include is transparent": which tokens (types and texts) reach the parser is a function
    of the texts of the files alone - the file id that is handed to the scanner only ends up in the tokens' file id
    field, and the include expansion splices the token list of the named file in place of the two tokens of the
    directive, recursively, whatever the counters and display names are. *)
From Coq Require Import Ascii String List Bool NArith Lia.
From A2L Require Import Text.Escape Lex.Tokenizer Lex.Include Proofs.ProvenanceProofs.
Import ListNotations.

(* ---------- the scanner does not look at the file id ---------- *)
Definition sf (f : nat) (t : token) : token := mkTok (tk_type t) (tk_start t) (tk_end t) (tk_text t) (tk_line t) f.
Definition refile (f : nat) (st : tstate) : tstate :=
  mkTS (ts_pre st) (ts_suf st) (ts_pos st) (ts_sep st) (ts_line st) (map (sf f) (ts_toks st)).
Definition res_map {A B} (g : A -> B) (r : TRes A) : TRes B :=
  match r with TOk a => TOk (g a) | TErr e => TErr e | TPanic s => TPanic s | TFuel => TFuel end.

Lemma last_is_include_sf f toks : last_is_include (map (sf f) toks) = last_is_include toks.
Proof. destruct toks; reflexivity. Qed.

Lemma handle_a2ml_refile f1 f2 st : handle_a2ml f2 (refile f2 st) = res_map (refile f2) (handle_a2ml f1 st).
Proof.
  unfold handle_a2ml. cbn [ts_toks ts_suf ts_pos ts_line refile].
  destruct (ts_toks st) as [|t1 [|t2 r]]; cbn [map]; try reflexivity.
  cbn [sf tk_type tk_text].
  destruct (ttype_eqb (tk_type t2) TBegin && bytes_eqb (tk_text t1) b_a2ml); [|reflexivity].
  destruct (a2ml_scan (S (length (ts_suf st))) (ts_suf st) 0) as [n|]; [|reflexivity]. cbv zeta.
  destruct (0 <? len (frev (a2ml_trim (frev (firstN n (ts_suf st))))))%N; reflexivity.
Qed.

Lemma one_token_refile f1 f2 st : one_token f2 (refile f2 st) = res_map (refile f2) (one_token f1 st).
Proof.
  unfold one_token. cbn [ts_suf ts_pos ts_line ts_pre refile].
  destruct (ts_suf st) as [|c r] eqn:Es; [reflexivity|]. cbv zeta.
  destruct (is_ws c). { destruct (span is_ws (c :: r)) as [w rest]. reflexivity. }
  destruct (aeq c "/" && negb match r with [] => true | _ :: _ => false end).
  { destruct r as [|c2 r2]; [reflexivity|].
    destruct (aeq c2 "*"). { destruct (fbce r2); reflexivity. }
    destruct (aeq c2 "/"). { destruct (span (fun x => negb (aeq x lf)) r2) as [cm rest]. reflexivity. }
    unfold sep_check. cbn [ts_sep refile ts_line].
    destruct (starts_with b_begin (c2 :: r2)). { destruct (ts_sep st); reflexivity. }
    destruct (starts_with b_end (c2 :: r2)). { destruct (ts_sep st); reflexivity. }
    destruct (starts_with b_include (c2 :: r2)). { destruct (ts_sep st); reflexivity. }
    reflexivity. }
  unfold sep_check. cbn [ts_sep refile ts_line ts_toks]. rewrite last_is_include_sf.
  destruct (aeq c dq). { destruct (ts_sep st); [|reflexivity]. destruct (find_string_end r); reflexivity. }
  destruct (last_is_include (ts_toks st) && negb (is_digit c) && is_identchar c).
  { destruct (ts_sep st); [|reflexivity]. rewrite <- Es. cbn [ts_suf]. destruct (span is_pathchar (ts_suf st)) as [text rest]. reflexivity. }
  destruct (is_alpha c || aeq c "_").
  { destruct (ts_sep st); [|reflexivity]. rewrite <- Es. cbn [ts_suf]. destruct (span is_identchar (ts_suf st)) as [text rest].
    exact (handle_a2ml_refile f1 f2 (set_sep (push (advance st text rest) TIdentifier (ts_pos st) text (ts_line st) f1) false)). }
  destruct (aeq c "-" || is_numchar c); [|reflexivity].
  destruct (ts_sep st); [|reflexivity]. destruct (span is_numchar r) as [num_tl rest].
  destruct rest as [|d rest'].
  - destruct (bytes_eqb (c :: num_tl) ["-"%char] || bytes_eqb (c :: num_tl) ["."%char] || bytes_eqb (c :: num_tl) ["0"%char; "x"%char]); reflexivity.
  - destruct (negb (is_identchar d)).
    + destruct (bytes_eqb (c :: num_tl) ["-"%char] || bytes_eqb (c :: num_tl) ["."%char] || bytes_eqb (c :: num_tl) ["0"%char; "x"%char]); reflexivity.
    + destruct (span is_identchar (d :: rest')) as [idtl rest2]. reflexivity.
Qed.

Lemma frev_map {A B} (g : A -> B) (l : list A) : frev (map g l) = map g (frev l).
Proof. unfold frev. rewrite !rev_append_rev, !app_nil_r, map_rev. reflexivity. Qed.

Lemma tok_loop_refile f1 f2 : forall fuel st, tok_loop fuel f2 (refile f2 st) = res_map (map (sf f2)) (tok_loop fuel f1 st).
Proof.
  induction fuel as [|n IH]; intros st; cbn [tok_loop]; change (ts_suf (refile f2 st)) with (ts_suf st);
    change (ts_toks (refile f2 st)) with (map (sf f2) (ts_toks st)).
  - destruct (ts_suf st); [cbn [res_map]; rewrite frev_map; reflexivity | reflexivity].
  - destruct (ts_suf st); [cbn [res_map]; rewrite frev_map; reflexivity|].
    rewrite (one_token_refile f1 f2 st). destruct (one_token f1 st) as [st'| | |]; cbn [res_map]; try reflexivity. apply IH.
Qed.

Theorem tokenize_core_fileid f text : tokenize_core f text = res_map (map (sf f)) (tokenize_core 0 text).
Proof.
  unfold tokenize_core. exact (tok_loop_refile 0 f (S (length text)) (mkTS [] text 0 true 1 [])).
Qed.

Lemma tshape_sf f l : map tshape (map (sf f) l) = map tshape l.
Proof. rewrite map_map. apply map_ext. intros t. reflexivity. Qed.

(* ---------- the include expansion on types and texts ---------- *)
Definition shape := (ttype * bytes)%type.

Section Shapes.
  Variable fs : bytes -> bytes -> option (bytes * bytes).

  (* [srec full text]: the shapes of the (expanded) token list of the file with that full name and text *)
  Fixpoint sexpand (srec : bytes -> bytes -> option (list shape)) (full : bytes) (toks : list token) (out : list shape) : option (list shape) :=
    match toks with
    | [] => Some (rev out)
    | t :: r =>
        if ttype_eqb (tk_type t) TInclude then
          match r with
          | nt :: r' =>
              if ttype_eqb (tk_type nt) TString || ttype_eqb (tk_type nt) TIdentifier then
                match fs full (include_name nt) with
                | Some (full', text) =>
                    match srec full' text with
                    | Some sh => sexpand srec full r' (rev_append sh out)
                    | None => None
                    end
                | None => None
                end
              else None
          | [] => None
          end
        else sexpand srec full r (tshape t :: out)
    end.

  Fixpoint stokenize (fuel : nat) (full : bytes) (text : bytes) : option (list shape) :=
    match fuel with
    | O => None
    | S k => match tokenize_core 0 text with TOk toks => sexpand (stokenize k) full toks [] | _ => None end
    end.

  Lemma include_name_sf f t : include_name (sf f t) = include_name t.
  Proof. reflexivity. Qed.

  Lemma expand_shapes rec srec :
    (forall g n text toks files, rec g n text = IOk toks files -> srec (fn_full g) text = Some (map tshape toks)) ->
    forall k toks, length toks <= k -> forall f fid next out files res files',
    expand fs rec f next (map (sf fid) toks) out files = IOk res files' ->
    sexpand srec (fn_full f) toks (map tshape out) = Some (map tshape res).
  Proof.
    intros Hrec. induction k as [|k IH]; intros toks Hk f fid next out files res files' E.
    - destruct toks; [|cbn [length] in Hk; lia]. cbn [map expand sexpand] in *. injection E as <- _.
      rewrite rev_append_rev, app_nil_r, map_rev. reflexivity.
    - destruct toks as [|t r]; cbn [map expand sexpand] in *.
      + injection E as <- _. rewrite rev_append_rev, app_nil_r, map_rev. reflexivity.
      + cbn [length] in Hk. cbn [sf tk_type] in E. destruct (ttype_eqb (tk_type t) TInclude).
        * destruct r as [|nt r']; [discriminate|]. cbn [map] in E. cbn [length] in Hk. cbn [sf tk_type] in E.
          destruct (ttype_eqb (tk_type nt) TString || ttype_eqb (tk_type nt) TIdentifier); [|discriminate].
          rewrite include_name_sf in E.
          destruct (fs (fn_full f) (include_name nt)) as [[full text]|]; [|discriminate].
          destruct (rec (child_name f full (include_name nt)) next text) as [toks' files1| | |] eqn:Er; try discriminate.
          rewrite (Hrec _ _ _ _ _ Er : srec full text = _).
          pose proof (IH r' ltac:(lia) f fid _ _ _ _ _ E) as X. rewrite rev_append_rev, map_app, map_rev in X.
          rewrite rev_append_rev. exact X.
        * exact (IH r ltac:(lia) f fid next (sf fid t :: out) files res files' E).
  Qed.

  Theorem tokenize_inc_shapes : forall fuel f fid text toks files,
    tokenize_inc fs fuel f fid text = IOk toks files -> stokenize fuel (fn_full f) text = Some (map tshape toks).
  Proof.
    induction fuel as [|k IH]; intros f fid text toks files E; [discriminate|]. cbn [tokenize_inc stokenize] in *.
    rewrite (tokenize_core_fileid fid text) in E. destruct (tokenize_core 0 text) as [toks0| | |]; cbn [res_map] in E; try discriminate.
    exact (expand_shapes (tokenize_inc fs k) (stokenize k) (fun g n t ts fl H => IH g n t ts fl H) (length toks0) toks0 (le_n _) f fid (S fid) [] [f] toks files E).
  Qed.
End Shapes.
Print Assumptions tokenize_core_fileid.
Print Assumptions tokenize_inc_shapes.
