(** C01, the round trip without [reorder]: when the children of every group are stored in the order in which the writer
    emits them (within each list: sorted for the writer's comparison, which is what a loaded file, a sorted file and a
    file extended by sort_new_items have; at most one child where the grammar allows one; at most one position-restricted
    child per group), regrouping the written order gives back the stored lists, so the parser rebuilds the value itself. *)
From Coq Require Import Ascii String List Bool NArith ZArith Lia Sorting.Sorted Permutation.
From A2L Require Import Base.StableSort Base.StrCmp Text.Escape Text.IntText Lex.Tokenizer Gram.Spec A2ml.Types Gram.PState
  Gram.Parser Gram.Writer Gram.TokWriter Lib.Sort Proofs.SortProofs Proofs.CursorProofs Proofs.RoundTripProofs.
Import ListNotations.
Local Open Scope N_scope.

(* ---------- the writer's comparison is a total preorder ---------- *)
Lemma writer_sort_function_cul {P} (a b : ginfo P) :
  Writer.sort_function a b =
  cmp_uid_line (Z.of_N (g_uid a)) (Z.of_N (g_line a)) (Z.of_N (g_uid b)) (Z.of_N (g_line b))
               (str_cmp (string_of_list_ascii (g_tag a)) (string_of_list_ascii (g_tag b))).
Proof.
  unfold Writer.sort_function, cmp_uid_line.
  assert (E0 : forall x, (Z.of_N x =? 0)%Z = (x =? 0)) by (intros x; destruct x; reflexivity).
  assert (E1 : forall x y, (Z.of_N x =? Z.of_N y)%Z = (x =? y)).
  { intros x y. destruct (N.eqb_spec x y) as [->|H]; [apply Z.eqb_refl|]. apply Z.eqb_neq. intros Q. apply N2Z.inj in Q. contradiction. }
  rewrite !E0, !E1, !N2Z.inj_compare. reflexivity.
Qed.

Lemma sort_leb_total {P} (a b : ginfo P) : sort_leb a b = true \/ sort_leb b a = true.
Proof.
  unfold sort_leb. rewrite !writer_sort_function_cul.
  destruct (cul_total (Z.of_N (g_uid a)) (Z.of_N (g_line a)) (Z.of_N (g_uid b)) (Z.of_N (g_line b))
              (str_cmp (string_of_list_ascii (g_tag a)) (string_of_list_ascii (g_tag b)))
              (str_cmp (string_of_list_ascii (g_tag b)) (string_of_list_ascii (g_tag a))) (str_cmp_antisym _ _)) as [H|H]; [left|right];
    match goal with |- match ?c with _ => _ end = true => destruct c; congruence end.
Qed.

Lemma sort_leb_ngt {P} (a b : ginfo P) : sort_leb a b = true <-> Writer.sort_function a b <> Gt.
Proof. unfold sort_leb. destruct (Writer.sort_function a b); split; congruence. Qed.

Lemma sort_leb_trans {P} (a b c : ginfo P) : sort_leb a b = true -> sort_leb b c = true -> sort_leb a c = true.
Proof.
  rewrite !sort_leb_ngt, !writer_sort_function_cul. apply cul_trans. apply str_cmp_trans_ngt.
Qed.

(* ---------- regrouping the written order of a group whose lists are in writer order ---------- *)
Lemma upd_nth_length {A} (K : list A) i f : length (upd_nth K i f) = length K.
Proof. revert i. induction K as [|a K IH]; intros [|i]; simpl; try reflexivity. rewrite IH. reflexivity. Qed.

Lemma upd_nth_nth {A} (d : A) (K : list A) i j f : (j < length K)%nat ->
  nth i (upd_nth K j f) d = if Nat.eqb i j then f (nth i K d) else nth i K d.
Proof.
  revert i j. induction K as [|a K IH]; intros i j Hj; [simpl in Hj; lia|].
  destruct j as [|j]; destruct i as [|i]; simpl; try reflexivity. apply IH. simpl in Hj. lia.
Qed.

Section Order.
  Variable S : spec.
  Variable posrs : list (string * posr).

  Definition entry_of (i : nat) (ti : titem) (k : value) : ginfo entry :=
    let l := layout_of k in
    GTag (bytes_of (ti_tag ti)) (l_incfile l) (l_uid l) (l_line l) (l_so l) (l_eo l) (ti_block ti) (i, ti, k) (pos_restrict S posrs k).
  Definition gsel (i : nat) (g : ginfo entry) : bool :=
    match g with GTag _ _ _ _ _ _ _ x _ => Nat.eqb (fst (fst x)) i | GComment _ _ _ _ _ => false end.
  Definition restricted (g : ginfo entry) : bool := match g_pos g with Some _ => true | None => false end.

  Definition entries_from (s : nat) (titems : list titem) (mine : list (list value)) : list (ginfo entry) :=
    flat_map (fun p => map (entry_of (fst (fst p)) (snd (fst p))) (snd p)) (combine (combine (seq s (length titems)) titems) mine).

  Lemma kid_entries_from titems mine : kid_entries S posrs titems mine = entries_from 0 titems mine.
  Proof. reflexivity. Qed.

  Lemma filter_gsel_chunk i j ti ks : filter (gsel i) (map (entry_of j ti) ks) = if Nat.eqb j i then map (entry_of j ti) ks else [].
  Proof.
    induction ks as [|k ks IH]; [destruct (Nat.eqb j i); reflexivity|]. cbn [map filter]. rewrite IH.
    unfold entry_of at 1. cbn [gsel fst]. destruct (Nat.eqb j i); reflexivity.
  Qed.

  Lemma filter_entries_other i : forall titems mine s, (i < s)%nat -> filter (gsel i) (entries_from s titems mine) = [].
  Proof.
    induction titems as [|ti r IH]; intros mine s Hs; [reflexivity|]. destruct mine as [|ks mine]; [reflexivity|].
    unfold entries_from. cbn [length seq combine flat_map fst snd]. rewrite filter_app, filter_gsel_chunk.
    destruct (Nat.eqb_spec s i) as [E|_]; [lia|]. cbn [app]. apply (IH mine (Datatypes.S s)). lia.
  Qed.

  Lemma filter_entries : forall titems mine s i ti ks, nth_error titems i = Some ti -> nth_error mine i = Some ks ->
    filter (gsel (s + i)) (entries_from s titems mine) = map (entry_of (s + i) ti) ks.
  Proof.
    induction titems as [|tj r IH]; intros mine s i ti ks Ht Hk; [destruct i; discriminate|].
    destruct mine as [|k0 mine]; [destruct i; discriminate|].
    unfold entries_from. cbn [length seq combine flat_map fst snd]. rewrite filter_app, filter_gsel_chunk.
    destruct i as [|i]; cbn [nth_error] in Ht, Hk.
    - inversion Ht; inversion Hk; subst. rewrite Nat.add_0_r, Nat.eqb_refl.
      fold (entries_from (Datatypes.S s) r mine). rewrite filter_entries_other by lia. apply app_nil_r.
    - destruct (Nat.eqb_spec s (s + Datatypes.S i)) as [E|_]; [lia|]. cbn [app].
      fold (entries_from (Datatypes.S s) r mine). replace (s + Datatypes.S i)%nat with (Datatypes.S s + i)%nat by lia.
      apply (IH mine (Datatypes.S s) i ti ks Ht Hk).
  Qed.

  Lemma entries_idx_bound : forall titems mine s g, In g (entries_from s titems mine) ->
    match g with GTag _ _ _ _ _ _ _ x _ => (fst (fst x) < s + length titems)%nat | GComment _ _ _ _ _ => False end.
  Proof.
    induction titems as [|tj r IH]; intros mine s g H; [destruct H|]. destruct mine as [|k0 mine]; [destruct H|].
    unfold entries_from in H. cbn [length seq combine flat_map fst snd] in H. apply in_app_or in H. destruct H as [H|H].
    - apply in_map_iff in H. destruct H as (k & <- & _). cbn. lia.
    - fold (entries_from (Datatypes.S s) r mine) in H. specialize (IH mine (Datatypes.S s) g H). destruct g; [|exact IH]. cbn [length]. lia.
  Qed.

  Definition group_in_order (titems : list titem) (kids : list (list value)) : Prop :=
    length kids = length titems /\
    (length (filter restricted (kid_entries S posrs titems kids)) <= 1)%nat /\
    forall i ti ks, nth_error titems i = Some ti -> nth_error kids i = Some ks ->
      Sorted (leP sort_leb) (map (entry_of i ti) ks) /\ (ti_repeat ti = false -> (length ks <= 1)%nat).

  Lemma group_order_plain (G : list (ginfo entry)) : (length (filter restricted G) <= 1)%nat -> group_order G = ssort sort_leb G.
  Proof.
    intros H. unfold group_order, apply_position_restrictions.
    assert (L : length (filter (fun g : ginfo entry => match g_pos g with Some _ => true | None => false end) (ssort sort_leb G)) = length (filter restricted G)).
    { change (fun g : ginfo entry => match g_pos g with Some _ => true | None => false end) with restricted.
      rewrite (filter_ssort sort_leb sort_leb_total sort_leb_trans restricted G). apply Permutation_length, ssort_perm. }
    rewrite L. destruct (Nat.ltb_spec 1 (length (filter restricted G))); [lia | reflexivity].
  Qed.

  Lemma filter_flat_payload i (gs : list (ginfo entry)) :
    filter (fun e : entry => Nat.eqb (fst (fst e)) i) (flat_map payload gs) = flat_map payload (filter (gsel i) gs).
  Proof.
    induction gs as [|g gs IH]; [reflexivity|]. cbn [flat_map filter]. rewrite filter_app, IH.
    destruct g as [? ? ? ? ? ? ? x ?|]; cbn [payload gsel filter]; [|reflexivity].
    destruct (Nat.eqb (fst (fst x)) i); reflexivity.
  Qed.

  Section Fold.
    Variable rec : value -> value.
    Definition eff (l0 : list value) (es : list entry) : list value :=
      fold_left (fun l e => if ti_repeat (snd (fst e)) then l ++ [rec (snd e)] else [rec (snd e)]) es l0.

    Lemma fold_place_nth : forall es K i, (forall e, In e es -> (fst (fst e) < length K)%nat) ->
      nth i (fold_left (place rec) es K) [] = eff (nth i K []) (filter (fun e : entry => Nat.eqb (fst (fst e)) i) es).
    Proof.
      induction es as [|e es IH]; intros K i Hb; [reflexivity|]. cbn [fold_left filter].
      assert (He : (fst (fst e) < length K)%nat) by (apply Hb; left; reflexivity).
      rewrite IH by (intros e' He'; unfold place; rewrite upd_nth_length; apply Hb; right; exact He').
      unfold place at 1. rewrite (upd_nth_nth [] K i (fst (fst e)) _ He). rewrite (Nat.eqb_sym i).
      destruct (Nat.eqb (fst (fst e)) i); reflexivity.
    Qed.

    Lemma fold_place_length es : forall K, length (fold_left (place rec) es K) = length K.
    Proof. induction es as [|e es IH]; intros K; [reflexivity|]. cbn [fold_left]. rewrite IH. apply upd_nth_length. Qed.

    Lemma eff_repeat i ti ks : forall l0, ti_repeat ti = true -> eff l0 (map (fun k => (i, ti, k)) ks) = l0 ++ map rec ks.
    Proof.
      induction ks as [|k ks IH]; intros l0 Hr; [symmetry; apply app_nil_r|]. unfold eff in *. cbn [map fold_left fst snd]. rewrite Hr.
      rewrite (IH _ Hr), <- app_assoc. reflexivity.
    Qed.

    Lemma payload_entries i ti ks : flat_map payload (map (entry_of i ti) ks) = map (fun k => (i, ti, k)) ks.
    Proof. induction ks as [|k ks IH]; [reflexivity|]. cbn [map flat_map]. rewrite IH. reflexivity. Qed.

    Lemma regroup_in_order titems kids : group_in_order titems kids -> regroup S posrs rec titems kids = map (map rec) kids.
    Proof.
      intros (Hlen & Hres & Hall). unfold regroup, ordered_kids. rewrite (group_order_plain _ Hres).
      set (G := kid_entries S posrs titems kids).
      set (es := flat_map payload (ssort sort_leb G)).
      assert (Hb : forall e, In e es -> (fst (fst e) < length (map (fun _ : titem => @nil value) titems))%nat).
      { intros e He. subst es. apply in_flat_map in He. destruct He as (g & Hg & He).
        eapply Permutation_in in Hg; [|apply ssort_perm]. subst G. rewrite kid_entries_from in Hg.
        pose proof (entries_idx_bound titems kids 0 g Hg) as B. destruct g as [? ? ? ? ? ? ? x ?|]; [|destruct B].
        cbn [payload] in He. destruct He as [<-|[]]. rewrite map_length. exact B. }
      apply (nth_ext _ _ [] []).
      - rewrite fold_place_length, !map_length. symmetry. exact Hlen.
      - intros i Hi. rewrite fold_place_length, map_length in Hi.
        rewrite (fold_place_nth es _ i Hb).
        assert (Hn0 : nth i (map (fun _ : titem => @nil value) titems) [] = []).
        { clear. revert i. induction titems as [|t r IH]; intros [|i]; simpl; auto. }
        rewrite Hn0.
        destruct (nth_error titems i) as [ti|] eqn:Et; [|apply nth_error_None in Et; lia].
        destruct (nth_error kids i) as [ks|] eqn:Ek; [|apply nth_error_None in Ek; lia].
        destruct (Hall i ti ks Et Ek) as [Hs Hone].
        subst es. rewrite filter_flat_payload.
        rewrite (filter_ssort sort_leb sort_leb_total sort_leb_trans (gsel i) G).
        subst G. rewrite kid_entries_from. pose proof (filter_entries titems kids 0 i ti ks Et Ek) as FE. cbn [Nat.add] in FE. rewrite FE.
        rewrite (ssort_sorted_id sort_leb _ Hs), payload_entries.
        change (nth i (map (map rec) kids) []) with (nth i (map (map rec) kids) (map rec [])).
        rewrite map_nth. rewrite (nth_error_nth _ _ _ Ek).
        destruct (ti_repeat ti) eqn:Er; [apply (eff_repeat i ti ks [] Er)|].
        specialize (Hone eq_refl). destruct ks as [|k [|k2 ks]]; [reflexivity | | simpl in Hone; lia].
        unfold eff. cbn [map fold_left fst snd]. rewrite Er. reflexivity.
    Qed.
  End Fold.
End Order.

(* ---------- values whose groups are all in writer order ---------- *)
Section Whole.
  Variable S : spec.
  Variable posrs : list (string * posr).

  Definition field_in_order (wo : value -> Prop) (ty : fty) (fv : value) : Prop :=
    match ty, fv with
    | FStruct _, _ => wo fv
    | FSeq (FStruct _) _, VList l => Forall wo l
    | _, _ => True
    end.
  Fixpoint items_in_order (wo : value -> Prop) (its : list item) (fields : list value) (kids : list (list value)) : Prop :=
    match its with
    | [] => fields = [] /\ kids = []
    | IField _ ty :: r =>
        match fields with
        | fv :: fr => field_in_order wo ty fv /\ items_in_order wo r fr kids
        | [] => False
        end
    | ITagged _ _ titems :: r =>
        (length titems <= length kids)%nat /\
        group_in_order S posrs titems (firstn (length titems) kids) /\
        Forall (Forall wo) (firstn (length titems) kids) /\
        items_in_order wo r fields (skipn (length titems) kids)
    end.
  Fixpoint in_writer_order (f : nat) (v : value) : Prop :=
    match f with
    | O => True
    | Datatypes.S f' =>
        match v with
        | VNode ty _ fields kids _ =>
            match lookup_ty S ty with
            | Some td => items_in_order (in_writer_order f') (t_items td) fields kids
            | None => True
            end
        | _ => True
        end
    end.

  Lemma map_id_on {A} (g : A -> A) l (P : A -> Prop) : (forall x, P x -> g x = x) -> Forall P l -> map g l = l.
  Proof. intros H F. induction F as [|x l Hx Hl IH]; [reflexivity|]. cbn [map]. rewrite (H x Hx), IH. reflexivity. Qed.

  Lemma re_items_id (wo : value -> Prop) (rec : value -> value) : (forall x, wo x -> rec x = x) ->
    forall its fields kids, items_in_order wo its fields kids -> re_items S posrs rec its fields kids = (fields, kids).
  Proof.
    intros Hrec. induction its as [|it its IH]; intros fields kids H; cbn [items_in_order re_items] in *.
    - destruct H as [-> ->]. reflexivity.
    - destruct it as [n ty | u l titems].
      + destruct fields as [|fv fr]; [destruct H|]. destruct H as [Hf Hr]. rewrite (IH fr kids Hr). f_equal. f_equal.
        unfold re_field, field_in_order in *. destruct ty; try reflexivity.
        * apply Hrec. exact Hf.
        * destruct ty; try reflexivity. destruct fv; try reflexivity. f_equal. apply (map_id_on rec l wo Hrec Hf).
      + destruct H as (Hlen & Hg & Hk & Hr). rewrite (IH fields _ Hr). f_equal.
        rewrite (regroup_in_order S posrs rec titems _ Hg).
        rewrite (map_id_on (map rec) _ (Forall wo)); [apply firstn_skipn | | exact Hk].
        intros l0 Hl0. apply (map_id_on rec l0 wo Hrec Hl0).
  Qed.

  Theorem reorder_in_order : forall f v, in_writer_order f v -> reorder S posrs f v = v.
  Proof.
    induction f as [|f IH]; intros v H; [reflexivity|]. cbn [reorder in_writer_order] in *.
    destruct v as [| |ty lay fields kids cms|]; try reflexivity.
    destruct (lookup_ty S ty) as [td|]; [|reflexivity].
    rewrite (re_items_id (in_writer_order f) (reorder S posrs f) IH _ _ _ H). reflexivity.
  Qed.

  Variable ftab : list fentry.
  Variable ifuel : nat.

  (* the parser rebuilds exactly the value that was written, up to layout *)
  Theorem frame_in_order : forall f F td v c so s ts rest nxt,
    (f < F)%nat -> c_fileid c = O -> Inv s -> ps_ftab s = ftab ->
    confb S posrs ftab f td v nxt = true -> in_writer_order f v -> ps_after s = ts ++ rest ->
    map shape_of ts = wtoks S posrs ftab f v ++ closing (is_blockb td) (c_element c) ->
    (is_blockb td = false -> hd_shape rest = nxt) ->
    exists v' s', parse_ty F S ifuel td c so s = (ROk v', s') /\ adv ts s s' /\ erase v' = erase v.
  Proof.
    intros f F td v c so s ts rest nxt HF Hc I Hf Hconf Hord Ha Hm Hn.
    destruct (frame S posrs ftab ifuel f F td v c so s ts rest nxt HF Hc I Hf Hconf Ha Hm Hn) as (v' & s' & E & A & Ev).
    exists v', s'. rewrite (reorder_in_order f v Hord) in Ev. auto.
  Qed.
End Whole.
Print Assumptions frame_in_order.
