(** Closed obligations over the regenerated grammar terms (re-checked whenever the translators'
    output changes): all by computation. *)
From Coq Require Import String List Bool Arith.
From A2L Require Import Gram.Spec Gram.WriterTable Gen.SpecShipped Gen.SpecDsl Gen.SpecRef Gen.WriterShipped Proofs.SpecEqProofs.

(* C20: the grammar implemented by the shipped generated code = the grammar the in-tree DSL parser reads
   from the in-tree specification *)
Lemma shipped_equals_dsl : spec_eqb spec_shipped spec_dsl = true.
Proof. vm_compute. reflexivity. Qed.

(* C04: ... = the frozen reference copy of the A2L 1.7.1 grammar *)
Lemma shipped_equals_reference : spec_eqb spec_shipped spec_ref = true.
Proof. vm_compute. reflexivity. Qed.

(* C01/C02: every stringify / PartialEq of the shipped code is the instance of the writer template for its type *)
Lemma writer_is_consistent : writer_consistent spec_shipped writer_shipped = true.
Proof. vm_compute. reflexivity. Qed.

Lemma shipped_is_dsl : spec_shipped = spec_dsl.
Proof. apply spec_eqb_eq, shipped_equals_dsl. Qed.
Lemma shipped_is_reference : spec_shipped = spec_ref.
Proof. apply spec_eqb_eq, shipped_equals_reference. Qed.
