(** C05 — layout preservation.  What carries the line of a token from the input to the output is (1) the line counter
    of the scanner and (2) the writer's replay of the stored offsets.  Proved here: the scanner is total and its token
    lines never decrease (so the parser's u32 line differences are well defined), the writer's whitespace for an
    offset n>0 contains exactly n line breaks, and every shipped stringify writes each field with its own location.
    The whole-document statement is tied by the correspondence run and evaluated by the oracle. *)
From Coq Require Import Ascii String List Bool NArith ZArith.
From A2L Require Import Base.Res Text.Escape Lex.Tokenizer Gram.Spec Gram.Writer Gram.WriterTable Gen.SpecShipped Gen.WriterShipped
     Proofs.TokenizerProofs Proofs.GrammarObligations Proofs.LayoutProofs.
Import ListNotations.
Local Open Scope N_scope.

Theorem C05_token_lines_monotone : forall fid text toks, tokenize_core fid text = TOk toks ->
  lines_sorted toks /\ Forall (fun t => 1 <= tk_line t) toks.
Proof. exact tokenize_lines_monotone. Qed.
Print Assumptions C05_token_lines_monotone.

(* replay of an offset: n > 0 gives exactly n line breaks followed by indentation, 0 gives one space
   (unless the line ends in a line comment, where a break is forced) *)
Theorem C05_whitespace_replays_offset : forall indent n o, 0 < n ->
  count_newlines (finish (add_whitespace indent n o)) = count_newlines (finish o) + n.
Proof. exact add_whitespace_newlines. Qed.
Print Assumptions C05_whitespace_replays_offset.

Theorem C05_each_field_written_with_its_own_location : writer_consistent spec_shipped writer_shipped = true.
Proof. exact writer_is_consistent. Qed.
Print Assumptions C05_each_field_written_with_its_own_location.
