(** C05 — layout preservation.  What carries the line of a token from the input to the output is (1) the line counter
    of the scanner and (2) the writer's replay of the stored offsets.  Proved here: the scanner is total and its token
    lines never decrease (so the parser's u32 line differences are well defined), the writer's whitespace for an
    offset n>0 contains exactly n line breaks, and every shipped stringify writes each field with its own location.
    And the parser's side for whole elements: every offset the parser stores is the line of its token minus the line of the
    token in front of it (C05_stored_offsets_are_line_differences).  The writer's composition over a whole document is tied
    by the correspondence run and evaluated by the oracle. *)
From Coq Require Import Ascii String List Bool NArith ZArith.
From A2L Require Import Base.Res Text.Escape Lex.Tokenizer Gram.Spec A2ml.Types Gram.PState Gram.Parser Gram.Writer Gram.TokWriter
     Gram.WriterTable Gen.SpecShipped Gen.WriterShipped
     Proofs.TokenizerProofs Proofs.GrammarObligations Proofs.LayoutProofs Proofs.LexUnitsProofs Proofs.WriterUnitsProofs Proofs.CursorProofs Proofs.LineOffsetProofs
     Proofs.ParseTraceProofs Proofs.LinePreservationProofs.
Import ListNotations.
Local Open Scope N_scope.

Theorem C05_token_lines_monotone : forall fid text toks, tokenize_core fid text = TOk toks ->
  lines_sorted toks /\ Forall (fun t => 1 <= tk_line t) toks.
Proof. exact tokenize_lines_monotone. Qed.
Print Assumptions C05_token_lines_monotone.

(* replay of an offset: n > 0 gives exactly n line breaks followed by indentation, 0 gives one space
   (unless the line ends in a line comment, where a break is forced) *)
Theorem C05_whitespace_replays_offset : forall indent n o, 0 < n ->
  count_newlines (finish (add_whitespace indent n o)) = count_newlines (finish o) + n.
Proof. exact add_whitespace_newlines. Qed.
Print Assumptions C05_whitespace_replays_offset.

Theorem C05_each_field_written_with_its_own_location : writer_consistent spec_shipped writer_shipped = true.
Proof. exact writer_is_consistent. Qed.
Print Assumptions C05_each_field_written_with_its_own_location.


(** The parser's side, for every grammar that meets spec_ok, every element type and nesting depth: after a clean run the
    offsets in the value - the ones the writer replays: per field, l_so in front of /begin or the keyword, l_eo in front of
    /end - are, token by token, the line of the token minus the line of the token in front of it (minus the line of the last
    token taken before the element for its first token).  [lines_as prev ts offs] walks the consumed tokens ts and the
    offsets offs = woffs v in step; an entry None marks a token that the writer puts directly behind its predecessor (the
    tag behind /begin and /end, a string of bounded length).  Conditions as for C02_load_then_write_keeps_every_token, and
    the element is not the last thing in the file. *)
Theorem C05_stored_offsets_are_line_differences : forall S posrs ftab ifuel, spec_ok S = true ->
  forall f td c off s v s', c_fileid c = O -> Inv s -> first_ok s -> ps_ftab s = ftab ->
    lookup_ty S (t_name td) = Some td -> t_special td = None ->
    parse_ty f S ifuel td c off s = (ROk v, s') -> ps_log s' = ps_log s -> good S posrs f td v ->
    ps_after s' <> [] ->
    exists ts, adv ts s s' /\ lines_as (prevl s) ts (woffs S posrs f v ++ closing_offs (is_blockb td) v) /\
               l_so (layout_of v) = off.
Proof.
  intros S posrs ftab ifuel Hs f td c off s v s' H1 H2 H3 H4 H5 H6 H7 H8 H9 Hne.
  destruct (parse_then_write S posrs ftab ifuel Hs f td c off s v s' H1 H2 H3 H4 H5 H6 H7 H8 H9) as (ts & A & _ & Hn & Ln).
  exists ts. split; [exact A|]. split; [exact (Ln Hne)|]. destruct Hn as (lay & fs & ks & -> & _ & _ & Hso). exact Hso.
Qed.
Print Assumptions C05_stored_offsets_are_line_differences.

(* what the offset is: the line of the token just taken minus the line of the token before it *)
Theorem C05_offset_behind_a_token : forall s cur b, Inv s -> first_ok s -> ps_before s = cur :: b -> ps_after s <> [] ->
  get_line_offset s = (ROk (tk_line cur - line_of b), s).
Proof. exact glo_value. Qed.
Print Assumptions C05_offset_behind_a_token.

(* the statement evaluated on a MEASUREMENT body that is spread over several lines (and followed by a further token) *)
Fixpoint lines_asb (prev : N) (ts : list token) (offs : list (option N)) : bool :=
  match ts, offs with
  | [], [] => true
  | t :: r, o :: q => match o with Some off => (off =? tk_line t - prev) | None => true end && lines_asb (tk_line t) r q
  | _, _ => false
  end.
Definition lf1 : string := String (Ascii.ascii_of_nat 10) EmptyString.
Definition demo_lines_body : string :=
  lf1 ++ lf1 ++ "speed ""x""" ++ lf1 ++ "  UWORD cm 1 0.5 0x0 0xFFFF" ++ lf1 ++ lf1 ++ "  ECU_ADDRESS 0x4000" ++ lf1 ++
  "  /begin ANNOTATION" ++ lf1 ++ "    ANNOTATION_LABEL ""l"" /end ANNOTATION BIT_MASK" ++ lf1 ++ "255" ++ lf1 ++ "/end MEASUREMENT next".
Definition demo_lines_ftab : list fentry :=
  [mkFe (list_ascii_of_string "0.5") true 0x3FE0000000000000 (list_ascii_of_string "0.5") (list_ascii_of_string "5e-1") true 0x3FE0000000000000 (list_ascii_of_string "0.5") (list_ascii_of_string "5e-1")].
Definition demo_lines_check : option (bool * nat * nat) :=
  match tokenize_core 0 (list_ascii_of_string demo_lines_body), lookup_ty spec_shipped "Measurement" with
  | TOk toks, Some td =>
      match parse_ty 6 spec_shipped 6 td (mkCtx (list_ascii_of_string "MEASUREMENT") O 1) 0 (init_state toks false 1 demo_lines_ftab) with
      | (ROk v, s') =>
          let consumed := firstn (length toks - length (ps_after s')) toks in
          Some (lines_asb 1 consumed (woffs spec_shipped posr_shipped 6 v ++ closing_offs (is_blockb td) v),
                length consumed, length (ps_after s'))
      | _ => None
      end
  | _, _ => None
  end.
Example C05_offsets_example : demo_lines_check = Some (true, 20%nat, 1%nat).
Proof. vm_compute. reflexivity. Qed.


(** The whole chain for an element: parse it, write the value, tokenize the written text.  The i-th token of the written
    text is the i-th token that was read, and it stands on the same line relative to the start: (line in the written text)
    - 1 = (line in the input) - (line of the token in front of the element).  Conditions: those of the load -> write theorem
    (C02), those of the write -> load theorem for the writer's side ([confb], well-formed token texts), the element is not
    the last thing in the file, and [inline]: the tag behind every /begin and /end of a child stands on the line of that
    /begin or /end (the property's layout class). *)
Theorem C05_element_lines_preserved : forall S posrs ftab names ifuel, spec_ok S = true ->
  forall f td c off s v s' nxt indent,
    c_fileid c = O -> Inv s -> first_ok s -> ps_ftab s = ftab ->
    lookup_ty S (t_name td) = Some td -> t_special td = None ->
    parse_ty f S ifuel td c off s = (ROk v, s') -> ps_log s' = ps_log s -> good S posrs f td v -> ps_after s' <> [] ->
    confb S posrs ftab f td v nxt = true -> Forall token_text (wtoks S posrs ftab f v) ->
    exists ts toks',
      adv ts s s' /\
      tokenize_core 0 (write_node S posrs ftab names f v indent) = TOk toks' /\
      map shape_of toks' = wtoks S posrs ftab f v /\
      (inline (prevl s) ts (woffs S posrs f v ++ closing_offs (is_blockb td) v) ->
       Forall2 (fun t' t => tk_line t' + prevl s = tk_line t + 1) toks' (firstn (length toks') ts)).
Proof. exact element_lines_preserved. Qed.
Print Assumptions C05_element_lines_preserved.

(* the writer's side alone: the lines of the tokens of a written value are the running sums of its offsets *)
Theorem C05_written_lines : forall S posrs ftab names f td v nxt indent,
  confb S posrs ftab f td v nxt = true -> Forall token_text (wtoks S posrs ftab f v) ->
  exists toks, tokenize_core 0 (write_node S posrs ftab names f v indent) = TOk toks /\
               map shape_of toks = wtoks S posrs ftab f v /\
               map tk_line toks = cums 1 (map offv (woffs S posrs f v)).
Proof. exact written_lines. Qed.
Print Assumptions C05_written_lines.

(* the premises of the chain are met, and the conclusion evaluates to true, on a MEASUREMENT body over several lines *)
Fixpoint inlineb (prev : N) (ts : list token) (offs : list (option N)) : bool :=
  match ts, offs with
  | t :: r, o :: q => match o with None => (tk_line t =? prev) | Some _ => true end && inlineb (tk_line t) r q
  | _, _ => true
  end.
Definition demo_chain_body : string :=
  lf1 ++ lf1 ++ "speed ""x""" ++ lf1 ++ "  UWORD cm 1 0.5 0.5 0.5" ++ lf1 ++ lf1 ++ "  ECU_ADDRESS 0x4000" ++ lf1 ++
  "  /begin ANNOTATION" ++ lf1 ++ "    ANNOTATION_LABEL ""l"" /end ANNOTATION BIT_MASK" ++ lf1 ++ "255" ++ lf1 ++ "/end MEASUREMENT next".
Definition demo_chain_check : option (bool * bool * bool * bool * bool) :=
  match tokenize_core 0 (list_ascii_of_string demo_chain_body), lookup_ty spec_shipped "Measurement" with
  | TOk toks, Some td =>
      match parse_ty 6 spec_shipped 6 td (mkCtx (list_ascii_of_string "MEASUREMENT") O 1) 0 (init_state toks false 1 demo_lines_ftab) with
      | (ROk v, s') =>
          let consumed := firstn (length toks - length (ps_after s')) toks in
          match tokenize_core 0 (write_node spec_shipped posr_shipped demo_lines_ftab [[]] 6 v 1) with
          | TOk toks' =>
              Some (confb spec_shipped posr_shipped demo_lines_ftab 6 td v None,
                    forallb token_textb (wtoks spec_shipped posr_shipped demo_lines_ftab 6 v),
                    goodb spec_shipped posr_shipped 6 td v,
                    inlineb 1 consumed (woffs spec_shipped posr_shipped 6 v ++ closing_offs (is_blockb td) v),
                    list_eqb N.eqb (map (fun t => tk_line t + 1) toks') (map (fun t => tk_line t + 1) (firstn (length toks') consumed)))
          | _ => None
          end
      | _ => None
      end
  | _, _ => None
  end.
Example C05_chain_example : demo_chain_check = Some (true, true, true, true, true).
Proof. vm_compute. reflexivity. Qed.

(* ---------- edit locality ---------- *)
From A2L Require Import Proofs.ParseOrderProofs Proofs.EditLocalityProofs.

(* An element whose children were read in the order P (ids increasing: what the parser builds and what sort_new_items keeps),
   none of them position-restricted: it is written as its parameters followed by one segment of tokens per child, each
   segment with its own line offsets.  With one child removed the element is written exactly as before, minus the segment of
   that child - every other token keeps its text and its line offset, i.e. the other lines are the same lines.  Read from
   right to left this is the statement for adding a child; [C05_changing_an_object_changes_only_its_tokens] is the one for
   changing a field of a child. *)
Theorem C05_removing_an_object_removes_only_its_tokens :
  forall S posrs ftab f ty td lay fields cms fis u l titems P1 e P2 lo,
  lookup_ty S ty = Some td -> t_special td = None -> t_items td = fis ++ [ITagged u l titems] -> fields_only_items fis ->
  length fields = length fis -> fits titems (P1 ++ e :: P2) -> unrestricted S posrs (P1 ++ e :: P2) -> uid_chain lo (P1 ++ e :: P2) ->
  let w := wtoks S posrs ftab f in let wo := woffs S posrs f in
  let head := items_toks S posrs ftab w fis fields [] in let head_o := items_offs S posrs wo fis fields [] in
  wtoks S posrs ftab (Datatypes.S f) (VNode ty lay fields (kids_of (length titems) (P1 ++ e :: P2)) cms) = head ++ flat_map (seg w) P1 ++ seg w e ++ flat_map (seg w) P2 /\
  wtoks S posrs ftab (Datatypes.S f) (VNode ty lay fields (kids_of (length titems) (P1 ++ P2)) cms) = head ++ flat_map (seg w) P1 ++ flat_map (seg w) P2 /\
  woffs S posrs (Datatypes.S f) (VNode ty lay fields (kids_of (length titems) (P1 ++ e :: P2)) cms) = head_o ++ flat_map (seg_offs wo) P1 ++ seg_offs wo e ++ flat_map (seg_offs wo) P2 /\
  woffs S posrs (Datatypes.S f) (VNode ty lay fields (kids_of (length titems) (P1 ++ P2)) cms) = head_o ++ flat_map (seg_offs wo) P1 ++ flat_map (seg_offs wo) P2.
Proof. exact element_without_a_child. Qed.
Print Assumptions C05_removing_an_object_removes_only_its_tokens.

Theorem C05_changing_an_object_changes_only_its_tokens :
  forall S posrs (w : value -> list shape) (wo : value -> list (option N)) titems P1 e e' P2 lo,
  euid e' = euid e -> fst e' = fst e -> pos_restrict S posrs (snd e') = None ->
  fits titems (P1 ++ e :: P2) -> unrestricted S posrs (P1 ++ e :: P2) -> uid_chain lo (P1 ++ e :: P2) ->
  group_toks S posrs w titems (kids_of (length titems) (P1 ++ e' :: P2)) = flat_map (seg w) P1 ++ seg w e' ++ flat_map (seg w) P2 /\
  group_offs S posrs wo titems (kids_of (length titems) (P1 ++ e' :: P2)) = flat_map (seg_offs wo) P1 ++ seg_offs wo e' ++ flat_map (seg_offs wo) P2.
Proof. exact changing_a_child_changes_its_segment. Qed.
Print Assumptions C05_changing_an_object_changes_only_its_tokens.

(* the premise about the shape of an element - parameters first, then one group of children - is met by the blocks of the
   shipped grammar that hold the objects one edits *)
Definition params_then_one_group (n : string) : bool :=
  match lookup_ty spec_shipped n with
  | Some td =>
      match rev (t_items td) with
      | ITagged _ _ _ :: rf => forallb (fun it => match it with IField _ _ => true | ITagged _ _ _ => false end) rf
      | _ => false
      end
  | None => false
  end.
Example C05_shipped_blocks_have_parameters_then_one_group :
  forallb params_then_one_group ["Module"; "Measurement"; "Characteristic"; "AxisPts"; "CompuMethod"; "Group"; "Function"; "Project"]%string = true.
Proof. vm_compute. reflexivity. Qed.

(* the premises about the children are met: two MEASUREMENTs of a MODULE with ids 3 and 7 *)
Definition demo_module_titems : list titem :=
  match lookup_ty spec_shipped "Module" with
  | Some td => match rev (t_items td) with ITagged _ _ ti :: _ => ti | _ => [] end
  | None => []
  end.
Definition demo_meas (uid : N) : option entry :=
  match find_titem demo_module_titems (bytes_of "MEASUREMENT") 0 with
  | Some (i, ti) => Some (i, ti, VNode "Measurement" (mkLay uid 0 1 1 None) [] [] [])
  | None => None
  end.
Example C05_edit_locality_premises_are_met :
  match demo_meas 3, demo_meas 7 with
  | Some a, Some b => fits demo_module_titems [a; b] /\ unrestricted spec_shipped posr_shipped [a; b] /\ uid_chain 0 [a; b]
  | _, _ => False
  end.
Proof.
  vm_compute demo_meas. cbv iota beta. split; [|split].
  - repeat constructor; vm_compute; reflexivity.
  - repeat constructor; vm_compute; reflexivity.
  - cbn [uid_chain euid layout_of snd l_uid]. repeat split; reflexivity.
Qed.

(* ---------- IF_DATA that a definition describes: the stored offsets are line differences ---------- *)
From A2L Require Proofs.IfdataLinesProofs.
Module IL := A2L.Proofs.IfdataLinesProofs.

(* Every line offset that the typed IF_DATA parser stores - with each scalar, with the tag (or the /begin) and with the /end of each
   tagged item, in any nesting - is the line of that token minus the line of the token in front of it: [IL.goffs g] lists the stored
   offsets of the value token by token (None for the tags behind /begin and /end, which have no offset of their own), [lines_as] compares
   them with the lines of the tokens that were read.  (The parser's half of line preservation for IF_DATA content; the writer's half -
   add_whitespace prints exactly that many line breaks - is the theorem C05_written_lines for the generic elements and is evaluated
   for IF_DATA.) *)
Theorem C05_typed_if_data_offsets_are_line_differences : forall f ty c, c_fileid c = O -> (ty_depth ty <= f)%nat ->
  forall s g s', Inv s -> first_ok s -> parse_ifdata_item f ty c s = (ROk g, s') -> ps_log s' = ps_log s -> ps_after s' <> [] ->
  exists ts, adv ts s s' /\ lines_as (prevl s) ts (IL.goffs g).
Proof. intros f ty c Hc Hd. exact (IL.typed_ifdata_offsets_are_line_differences f ty c Hc Hd). Qed.
Print Assumptions C05_typed_if_data_offsets_are_line_differences.

(* on a concrete block over four lines *)
Example C05_typed_if_data_offsets_example :
  match tokenize_core 0 (bytes_of "5" ++ [lf] ++ bytes_of "/begin BLK 9" ++ [lf] ++ bytes_of " 1 0x2 /end BLK" ++ [lf] ++ bytes_of "A 7 /end IF_DATA") with
  | TOk toks =>
      match parse_ifdata_item 5 (TStruct [TUInt; TTaggedStruct [Tagged (bytes_of "A") false false TULong;
                                                              Tagged (bytes_of "BLK") true true (TStruct [TUChar; TSequence TUInt])]])
                              (mkCtx (bytes_of "IF_DATA") O 1) (init_state toks false 1 []) with
      | (ROk g, s') => Some (match ps_log s' with [] => true | _ => false end, IL.goffs g)
      | _ => None
      end
  | _ => None
  end = Some (true, [Some 0; Some 1; None; Some 0; Some 1; Some 0; Some 0; None; Some 1; Some 0]%N).
Proof. vm_compute. reflexivity. Qed.

(* the writer's half: in the text GenericIfData::write produces for a conforming value whose token texts are well-formed tokens, the
   white space in front of the i-th token contains exactly as many line breaks as the offset stored with it ([IL.goffs]; none in front
   of the tags behind /begin and /end).  With the theorem above: what the parser stored as line differences comes out as line breaks. *)
From A2L Require Proofs.IfdataFollowProofs Proofs.IfdataTextProofs Proofs.IfdataWriteLinesProofs.
Module IFo := A2L.Proofs.IfdataFollowProofs.
Module ITx := A2L.Proofs.IfdataTextProofs.
Module IW := A2L.Proofs.IfdataWriteLinesProofs.
Theorem C05_written_if_data_line_breaks : forall ftab names f ty g k indent, IFo.conf ftab ty g k -> (ITx.gdepth g <= f)%nat ->
  Forall LexUnitsProofs.token_text (IFo.ftoks ftab g) ->
  exists us, gifd_write ftab names f g indent = LexUnitsProofs.render us /\ map snd us = IFo.ftoks ftab g /\
             map (fun u => count_newlines (fst u)) us = map (fun o => match o with Some n => n | None => 0%N end) (IL.goffs g).
Proof. intros ftab names f ty g k indent Hc Hd Ht. exact (IW.gifd_write_line_breaks ftab names f ty g k indent Hc Hd Ht). Qed.
Print Assumptions C05_written_if_data_line_breaks.

(* both halves composed, as for the generic elements (C05_element_lines_preserved): read IF_DATA content with the typed parser, write
   the value, scan the written text - the i-th token of the written text stands on the line the i-th token had in the input, counted
   from the token in front of the content.  Conditions: the run reports nothing; the value conforms to the definition and its token
   texts are well-formed (the writer's half); the tags behind /begin and /end stand on the line of their /begin and /end ([inline],
   the layout class of the property). *)
From A2L Require Proofs.LinePreservationProofs Proofs.IfdataLinePreservationProofs.
Module IP := A2L.Proofs.IfdataLinePreservationProofs.
Theorem C05_if_data_lines_preserved : forall ftab names f F' ty c s g s' k indent,
  c_fileid c = O -> Inv s -> first_ok s -> (ty_depth ty <= F')%nat ->
  parse_ifdata_item F' ty c s = (ROk g, s') -> ps_log s' = ps_log s -> ps_after s' <> [] ->
  IFo.conf ftab ty g k -> (ITx.gdepth g <= f)%nat -> Forall LexUnitsProofs.token_text (IFo.ftoks ftab g) ->
  exists ts toks',
    adv ts s s' /\
    tokenize_core 0 (gifd_write ftab names f g indent) = TOk toks' /\
    map shape_of toks' = IFo.ftoks ftab g /\
    (LinePreservationProofs.inline (prevl s) ts (IL.goffs g) ->
     Forall2 (fun t' t => (tk_line t' + prevl s = tk_line t + 1)%N) toks' ts).
Proof. intros ftab names f F' ty c s g s' k indent. exact (IP.ifdata_lines_preserved ftab names f F' ty c s g s' k indent). Qed.
Print Assumptions C05_if_data_lines_preserved.

(* the same parser-side statement for IF_DATA that no definition describes (parse_unknown_ifdata / parse_unknown_taggedstruct, any
   nesting): every stored offset - identifiers, strings, numbers, the tag or /begin and the /end of nested items - is a line difference *)
From A2L Require Proofs.IfdataUnknownLinesProofs.
Module IUL := A2L.Proofs.IfdataUnknownLinesProofs.
Theorem C05_uninterpreted_if_data_offsets_are_line_differences : forall f c isb, c_fileid c = O ->
  forall s g s', Inv s -> first_ok s -> unknown_ifdata f c isb s = (ROk g, s') -> ps_log s' = ps_log s -> ps_after s' <> [] ->
  exists ts, adv ts s s' /\ lines_as (prevl s) ts (IL.goffs g).
Proof. intros f c isb Hc. exact (proj1 (IUL.unknown_ifdata_offsets_are_line_differences f) c isb Hc). Qed.
Print Assumptions C05_uninterpreted_if_data_offsets_are_line_differences.

(* ... and without any premise on the value: whatever the typed parser returned from a run that reports nothing has the shape the writer
   theorems need (no include attribution, content of tagged items is a block - Proofs/IfdataShapeProofs.v), so: read IF_DATA content with
   the typed parser, write what came back, scan the written text - its tokens stand, one by one, for the tokens that were read
   ([reads_as], C02) and on the lines they were read from (C05).  Remaining conditions: the token texts of the value are well-formed
   tokens, and the tags behind /begin and /end stand on the line of their /begin and /end. *)
From A2L Require Proofs.ParseTraceProofs.
Theorem C05_if_data_read_write_scan : forall ftab names f F' ty c s g s' indent,
  c_fileid c = O -> Inv s -> first_ok s -> ps_ftab s = ftab -> (ty_depth ty <= F')%nat ->
  parse_ifdata_item F' ty c s = (ROk g, s') -> ps_log s' = ps_log s -> ps_after s' <> [] ->
  (ITx.gdepth g <= f)%nat -> Forall LexUnitsProofs.token_text (IFo.ftoks ftab g) ->
  exists ts toks',
    adv ts s s' /\
    tokenize_core 0 (gifd_write ftab names f g indent) = TOk toks' /\
    Forall2 (ParseTraceProofs.reads_as ftab) ts (map shape_of toks') /\
    (LinePreservationProofs.inline (prevl s) ts (IL.goffs g) ->
     Forall2 (fun t' t => (tk_line t' + prevl s = tk_line t + 1)%N) toks' ts).
Proof. intros ftab names f F' ty c s g s' indent. exact (IP.ifdata_read_write_scan ftab names f F' ty c s g s' indent). Qed.
Print Assumptions C05_if_data_read_write_scan.

(* ... and the same for IF_DATA that no definition describes: read it with the uninterpreted reader, write what came back, scan the written
   text - token for token what was read ([reads_as]: a number as the text of the value it was read as), on the lines it was read from *)
From A2L Require Proofs.IfdataUnknownShapeProofs.
Module IUS := A2L.Proofs.IfdataUnknownShapeProofs.
Theorem C05_uninterpreted_if_data_read_write_scan : forall ftab names fu c isb s g s' f indent,
  c_fileid c = O -> Inv s -> first_ok s -> ps_ftab s = ftab ->
  unknown_ifdata fu c isb s = (ROk g, s') -> ps_log s' = ps_log s -> ps_after s' <> [] ->
  (ITx.gdepth g <= f)%nat -> Forall LexUnitsProofs.token_text (IFo.ftoks ftab g) ->
  exists ts toks',
    adv ts s s' /\
    tokenize_core 0 (gifd_write ftab names f g indent) = TOk toks' /\
    Forall2 (ParseTraceProofs.reads_as ftab) ts (map shape_of toks') /\
    (LinePreservationProofs.inline (prevl s) ts (IL.goffs g) ->
     Forall2 (fun t' t => (tk_line t' + prevl s = tk_line t + 1)%N) toks' ts).
Proof. intros ftab names fu c isb s g s' f indent. exact (IUS.unknown_ifdata_read_write_scan ftab names fu c isb s g s' f indent). Qed.
Print Assumptions C05_uninterpreted_if_data_read_write_scan.
