(** C06 — strict and non-strict loading agree except on recoverable problems.  The decision between "error" and
    "warning" is taken in one function; every diagnostic carries the position of the last token taken; computations
    composed from the primitives without catching errors are simulated by the non-strict mode.  The document-level
    relation is tied by the correspondence run (both modes) and evaluated by the oracle on the implementation. *)
From Coq Require Import Ascii String List Bool NArith ZArith.
From A2L Require Import Text.Escape Lex.Tokenizer Gram.Spec Gram.PState Proofs.StrictProofs.
Import ListNotations.

Theorem C06_single_decision_point_strict : forall d s, ps_strict s = true -> error_or_log d s = (RErr d, s).
Proof. exact error_or_log_strict. Qed.
Print Assumptions C06_single_decision_point_strict.

Theorem C06_single_decision_point_lenient : forall d s, ps_strict s = false ->
  error_or_log d s = (ROk tt, upd_log s (d :: ps_log s)).
Proof. exact error_or_log_lenient. Qed.
Print Assumptions C06_single_decision_point_lenient.

Theorem C06_diagnostic_position : forall variant c key s d s', mk_diag variant c key s = (ROk d, s') ->
  s' = s /\ d_line d = Some (ps_last s) /\ d_fileid d = c_fileid c /\ d_variant d = variant /\ d_key d = key.
Proof. exact mk_diag_location. Qed.
Print Assumptions C06_diagnostic_position.

Theorem C06_last_position_is_line_of_last_token : forall c s t s', get_token c s = (ROk t, s') -> ps_last s' = tk_line t.
Proof. exact get_token_sets_last. Qed.
Print Assumptions C06_last_position_is_line_of_last_token.

(* strict success => non-strict success with the same value, cursor and log, for anything composed with bind from
   simulated pieces; error_or_log itself, the multiplicity and version checks are simulated *)
Theorem C06_simulation_bind : forall A B (m : M A) (f : A -> M B), sim m -> (forall a, sim (f a)) -> sim (bindM m f).
Proof. exact @sim_bind. Qed.
Print Assumptions C06_simulation_bind.

Theorem C06_simulation_error_or_log : forall d, sim (error_or_log d).
Proof. exact sim_error_or_log. Qed.
Print Assumptions C06_simulation_error_or_log.

Theorem C06_simulation_multiplicity : forall c tag b, sim (handle_multiplicity_error c tag b).
Proof. exact sim_handle_multiplicity. Qed.
Print Assumptions C06_simulation_multiplicity.

Theorem C06_simulation_version_check : forall c tag v, sim (check_block_version_lower c tag v).
Proof. exact sim_check_block_version_lower. Qed.
Print Assumptions C06_simulation_version_check.

(** The whole generic parser (every function of Gram/Parser.v up to parse_file, for every grammar, including the sites
    that catch an error and restore the cursor).  [csim m]: m never changes the flag and only appends to the log; in
    strict mode it appends deprecation notices only; and a non-strict run that appends nothing but deprecation notices
    is, step for step, the strict run. *)
From A2L Require Import A2ml.Types Gram.Parser Proofs.StrictWholeProofs Gen.SpecShipped.

Theorem C06_whole_parser_is_simulated : forall S, csim (parse_file S).
Proof. exact csim_parse_file. Qed.
Print Assumptions C06_whole_parser_is_simulated.

(* "if non-strict loading succeeds without warnings, strict loading succeeds with an equal model and no warnings" - and
   more: whatever the outcome, if the non-strict load reports nothing but deprecation notices, the strict load has the
   same outcome, the same warnings and the same final state *)
Theorem C06_clean_nonstrict_load_is_the_strict_load : forall S toks nfiles ftab specs oracle r s',
  parse_file S (init_state_a2ml toks false nfiles ftab specs oracle) = (r, s') ->
  forallb deprecation (ps_log s') = true ->
  parse_file S (init_state_a2ml toks true nfiles ftab specs oracle) = (r, set_strict true s').
Proof. exact lenient_run_without_problems_is_the_strict_run. Qed.
Print Assumptions C06_clean_nonstrict_load_is_the_strict_load.

(* "strict loading fails => non-strict loading reports at least one problem other than a deprecation notice" (or fails
   with the very same error) *)
Theorem C06_strict_failure_is_reported_by_nonstrict_load : forall S toks nfiles ftab specs oracle d s1 r s',
  parse_file S (init_state_a2ml toks true nfiles ftab specs oracle) = (RErr d, s1) ->
  parse_file S (init_state_a2ml toks false nfiles ftab specs oracle) = (r, s') ->
  r = RErr d \/ existsb (fun x => negb (deprecation x)) (ps_log s') = true.
Proof. exact strict_failure_is_reported. Qed.
Print Assumptions C06_strict_failure_is_reported_by_nonstrict_load.

(* a strict load never returns a warning other than a deprecation notice *)
Theorem C06_strict_load_reports_only_deprecations : forall S toks nfiles ftab specs oracle r s',
  parse_file S (init_state_a2ml toks true nfiles ftab specs oracle) = (r, s') ->
  forallb deprecation (ps_log s') = true.
Proof. exact strict_run_reports_only_deprecations. Qed.
Print Assumptions C06_strict_load_reports_only_deprecations.

(* the premises are met by real documents of the shipped grammar: a clean one, one with a deprecated enumerator
   (deprecation notice in both modes, same model), one with an unknown element (strict error, non-strict warning) *)
Definition demo_run (text : string) (strict : bool) : option (nat * list string) :=
  match tokenize_core 0 (list_ascii_of_string text) with
  | TOk toks =>
      let '(r, s) := parse_file spec_shipped (init_state_a2ml toks strict 1 [] [] []) in
      Some (match r with ROk _ => 0 | RErr _ => 1 | RPanic _ => 2 | RFuel => 3 end, map d_variant (ps_log s))
  | _ => None
  end.
Definition doc_clean : string :=
  "ASAP2_VERSION 1 71 /begin PROJECT p """" /begin MODULE m """" /end MODULE /end PROJECT".
Definition doc_deprecated : string :=
  "ASAP2_VERSION 1 71 /begin PROJECT p """" /begin MODULE m """" /begin MOD_COMMON """" BYTE_ORDER LITTLE_ENDIAN /end MOD_COMMON /end MODULE /end PROJECT".
Definition doc_unknown : string :=
  "ASAP2_VERSION 1 71 /begin PROJECT p """" /begin MODULE m """" /begin NO_SUCH_BLOCK 1 /end NO_SUCH_BLOCK /end MODULE /end PROJECT".
Example C06_premises_are_met :
  demo_run doc_clean false = Some (0, []) /\ demo_run doc_clean true = Some (0, []) /\
  demo_run doc_deprecated false = Some (0, ["EnumRefDeprecated"%string]) /\
  demo_run doc_deprecated true = Some (0, ["EnumRefDeprecated"%string]) /\
  demo_run doc_unknown false = Some (0, ["UnknownSubBlock"%string]) /\ demo_run doc_unknown true = Some (1, []).
Proof. vm_compute. repeat split. Qed.

(* ---------- every diagnostic carries a position ---------- *)
From A2L Require Import Proofs.DiagPosProofs.

(* whatever the input, the mode and the grammar: the error that parse_file returns and every entry of its log carry a line
   (and the file id of the element they were found in: mk_diag takes it from the context and has no other way to build a
   diagnostic) - except MissingVersionInfo and InvalidVersion, the recorded finding *)
Theorem C06_every_diagnostic_carries_a_position_except_the_version_ones : forall G toks strict nfiles ftab specs oracle r s',
  parse_file G (init_state_a2ml toks strict nfiles ftab specs oracle) = (r, s') ->
  Forall (fun d => d_line d <> None \/ d_variant d = "MissingVersionInfo"%string \/ d_variant d = "InvalidVersion"%string) (ps_log s') /\
  (forall d, r = RErr d -> d_line d <> None \/ d_variant d = "MissingVersionInfo"%string \/ d_variant d = "InvalidVersion"%string).
Proof.
  intros G toks strict nfiles ftab specs oracle r s' E.
  destruct (dp_parse_file G (init_state_a2ml toks strict nfiles ftab specs oracle) r s' (Forall_nil _) E) as (H1 & H2 & _). split; [exact H1 | exact H2].
Qed.
Print Assumptions C06_every_diagnostic_carries_a_position_except_the_version_ones.

(* the two exceptions occur: a text that does not start with ASAP2_VERSION is reported without a position *)
Example C06_version_diagnostic_without_position :
  exists toks r s', tokenize_core 0 (list_ascii_of_string "/begin PROJECT p """" /end PROJECT") = TOk toks /\
    parse_file spec_shipped (init_state toks false 1 []) = (r, s') /\
    existsb (fun d => match d_line d with None => true | Some _ => false end) (ps_log s') = true.
Proof. eexists. eexists. eexists. split; [vm_compute; reflexivity|]. split; [vm_compute; reflexivity | vm_compute; reflexivity]. Qed.
