(** C06 — strict and non-strict loading agree except on recoverable problems.  The decision between "error" and
    "warning" is taken in one function; every diagnostic carries the position of the last token taken; computations
    composed from the primitives without catching errors are simulated by the non-strict mode.  The document-level
    relation is tied by the correspondence run (both modes) and evaluated by the oracle on the implementation. *)
From Coq Require Import Ascii String List Bool NArith ZArith.
From A2L Require Import Text.Escape Lex.Tokenizer Gram.Spec Gram.PState Proofs.StrictProofs.
Import ListNotations.

Theorem C06_single_decision_point_strict : forall d s, ps_strict s = true -> error_or_log d s = (RErr d, s).
Proof. exact error_or_log_strict. Qed.
Print Assumptions C06_single_decision_point_strict.

Theorem C06_single_decision_point_lenient : forall d s, ps_strict s = false ->
  error_or_log d s = (ROk tt, upd_log s (d :: ps_log s)).
Proof. exact error_or_log_lenient. Qed.
Print Assumptions C06_single_decision_point_lenient.

Theorem C06_diagnostic_position : forall variant c key s d s', mk_diag variant c key s = (ROk d, s') ->
  s' = s /\ d_line d = Some (ps_last s) /\ d_fileid d = c_fileid c /\ d_variant d = variant /\ d_key d = key.
Proof. exact mk_diag_location. Qed.
Print Assumptions C06_diagnostic_position.

Theorem C06_last_position_is_line_of_last_token : forall c s t s', get_token c s = (ROk t, s') -> ps_last s' = tk_line t.
Proof. exact get_token_sets_last. Qed.
Print Assumptions C06_last_position_is_line_of_last_token.

(* strict success => non-strict success with the same value, cursor and log, for anything composed with bind from
   simulated pieces; error_or_log itself, the multiplicity and version checks are simulated *)
Theorem C06_simulation_bind : forall A B (m : M A) (f : A -> M B), sim m -> (forall a, sim (f a)) -> sim (bindM m f).
Proof. exact @sim_bind. Qed.
Print Assumptions C06_simulation_bind.

Theorem C06_simulation_error_or_log : forall d, sim (error_or_log d).
Proof. exact sim_error_or_log. Qed.
Print Assumptions C06_simulation_error_or_log.

Theorem C06_simulation_multiplicity : forall c tag b, sim (handle_multiplicity_error c tag b).
Proof. exact sim_handle_multiplicity. Qed.
Print Assumptions C06_simulation_multiplicity.

Theorem C06_simulation_version_check : forall c tag v, sim (check_block_version_lower c tag v).
Proof. exact sim_check_block_version_lower. Qed.
Print Assumptions C06_simulation_version_check.
