(** C19 — a2ml_specification!: typed IF_DATA access round-trips.
    Statements about the model A2ml/Typed.v of the code the macro generates (parse through the GenericIfData accessors, store):
    for EVERY typed shape (scalars, strings, enums, arrays, nested structs, sequences, taggedstruct / taggedunion members with
    single and repeated occurrences, blocks, any nesting depth) and every well-typed value. *)
From Coq Require Import Ascii String List Bool NArith ZArith.
From A2L Require Import Text.Escape Gram.Parser A2ml.Typed Proofs.TypedProofs.
Import ListNotations.

(* storing a value and loading it back yields an equal value *)
Theorem C19_store_then_load_is_identity : forall fuel t v, ydepth t <= fuel -> wt t v -> load fuel t (store fuel t v) = LOk v.
Proof. exact load_store_roundtrip. Qed.
Print Assumptions C19_store_then_load_is_identity.

Theorem C19_store_to_ifdata_then_load_from_ifdata : forall fuel fields vals,
  fields_depth fields <= fuel -> Forall2 wt fields vals ->
  load_from_ifdata fuel fields (Some (store_to_ifdata fuel fields vals)) = LOk vals.
Proof. exact load_from_stored. Qed.
Print Assumptions C19_store_to_ifdata_then_load_from_ifdata.

(* decoding IF_DATA whose shape does not match yields no value: the result type of load has no other outcome than a value
   or an error text, and these mismatches are errors *)
Theorem C19_shorter_array_is_no_value : forall f t n l, length l < n -> exists why, load (S f) (YArr t n) (GArray l) = LErr why.
Proof. exact load_short_array_is_error. Qed.
Print Assumptions C19_shorter_array_is_no_value.
Theorem C19_other_scalar_type_is_no_value : forall f var g, (forall off z hex, g <> GInt var off z hex) ->
  exists why, load (S f) (YInt var) g = LErr why.
Proof. exact load_other_scalar_is_error. Qed.
Print Assumptions C19_other_scalar_type_is_no_value.
Theorem C19_missing_member_is_no_value : forall f var rest, exists why, lfields (load (S f)) (YInt var :: rest) [] = LErr why.
Proof. exact load_missing_member_is_error. Qed.
Print Assumptions C19_missing_member_is_no_value.

(* non-vacuity: a block with a repeated and a single tagged member, an array and a nested struct *)
Example C19_example :
  let s := (fun x : string => list_ascii_of_string x) in
  let ty := [YStruct [YInt "UInt"%string; YArr (YInt "Char"%string) 2];
             YTagged false [YMem (s "A"%string) false true [YStr]; YMem (s "B"%string) true false [YFloat; YEnum [s "ON"%string; s "OFF"%string]]]] in
  let v := [WStruct [WInt 7 true; WArr [WInt (-1) false; WInt 2 false]];
            WTagged [[[WStr (s "x"%string)]; [WStr (s "y"%string)]]; [[WFloat 4607182418800017408%N; WEnum (s "OFF"%string)]]]] in
  load_from_ifdata 6 ty (Some (store_to_ifdata 6 ty v)) = LOk v.
Proof. vm_compute. reflexivity. Qed.
