(** C11 — check(): the reference diagnostics are sound, complete on the covered sites, and a single corrupted
    reference is named.  The statements hold for every site table; the closed obligations at the end state which
    sites the current code covers (Gen/Sites.v, compared with the implementation at every site instance on
    every run).  "Never panics" and "never modifies the model" are observed on the implementation (they are
    statements about the Rust code, not about the reference graph). *)
From Coq Require Import String List NArith Bool.
From A2L Require Import Gen.Sites Lib.RefCheck Proofs.RefCheckProofs.
Import ListNotations.

(* soundness: every report names a reference whose target does not exist in the target namespace (special names
   NO_COMPU_METHOD / NO_INPUT_QUANTITY / NO_INVERSE_TRANSFORMER and resolvable THIS. references are never reported) *)
Theorem C11_every_report_names_a_missing_target : forall tbl defs slots t,
  In t (check_reports tbl defs slots) ->
  exists r s, In r slots /\ site_of tbl r = Some s /\ st_check s = true /\ slot_dangling defs s r = true /\ t = reported r.
Proof. exact check_sound. Qed.
Print Assumptions C11_every_report_names_a_missing_target.

(* completeness on the covered sites *)
Theorem C11_every_missing_target_at_a_covered_site_is_reported : forall tbl defs slots r s,
  In r slots -> site_of tbl r = Some s -> st_check s = true -> (0 < st_reports s)%N ->
  slot_dangling defs s r = true -> In (reported r) (check_reports tbl defs slots).
Proof. exact check_complete_on_covered. Qed.
Print Assumptions C11_every_missing_target_at_a_covered_site_is_reported.

(* a fully consistent module yields an empty report *)
Theorem C11_consistent_module_empty_report : forall tbl defs slots,
  consistent tbl defs slots -> check_reports tbl defs slots = [].
Proof. exact check_consistent_empty. Qed.
Print Assumptions C11_consistent_module_empty_report.

(* corrupting one covered reference of a consistent module yields exactly the reports naming the missing target *)
Theorem C11_single_corruption_is_named : forall tbl defs l1 r l2 s t',
  consistent tbl defs (l1 ++ r :: l2) -> site_of tbl r = Some s -> st_check s = true ->
  is_special s t' = false -> defined defs (st_ns s) t' = false ->
  check_reports tbl defs (l1 ++ mkRS (rs_site r) t' None :: l2) = repeat t' (N.to_nat (st_reports s)).
Proof. exact check_single_corruption. Qed.
Print Assumptions C11_single_corruption_is_named.

Theorem C11_uncovered_site_is_silent : forall tbl defs r s,
  site_of tbl r = Some s -> st_check s = false -> check_slot tbl defs r = [].
Proof. exact check_uncovered_silent. Qed.
Print Assumptions C11_uncovered_site_is_silent.

(* the table of the current code: the reference sites check() does not look at (the "covered" references of the
   property are all the others), and every covered site reports at least once *)
Definition uncovered_sites : list (string * string) :=
  map (fun s => (st_name s, st_parent s)) (filter (fun s => negb (st_check s)) sites).
Example C11_sites_not_covered_by_check : uncovered_sites =
  [ ("ArPrototypeOf.name", "ArComponent"); ("CombinationStruct.criterion_name", "VarForbiddenComb");
    ("CombinationStruct.criterion_value", "VarForbiddenComb"); ("Conversion.name", "Overwrite");
    ("FrameMeasurement.identifier_list", "Frame"); ("InputQuantity.name", "Overwrite");
    ("RefGroup.identifier_list", "UserRights"); ("RefUnit.unit", "Unit"); ("SRecLayout.name", "ModCommon");
    ("VarCharacteristic.name", "VariantCoding"); ("VarCharacteristic.criterion_name_list", "VariantCoding");
    ("VarMeasurement.name", "VarCriterion"); ("VarSelectionCharacteristic.name", "VarCriterion");
    ("Virtual.measuring_channel_list", "Measurement") ]%string.
Proof. vm_compute. reflexivity. Qed.
Example C11_covered_sites_report : forallb (fun s => implb (st_check s) (N.ltb 0 (st_reports s))) sites = true.
Proof. vm_compute. reflexivity. Qed.

(* non-vacuity: one definition, one resolving and one dangling reference at a covered site *)
Example C11_example :
  check_reports sites [("CM", "cm1")]%string [mkRS 7 "cm1" None; mkRS 7 "NO_COMPU_METHOD" None; mkRS 7 "gone" None]
  = ["gone"%string].
Proof. vm_compute. reflexivity. Qed.
