(** C02 — content preservation.  Lexeme level: a stored integer is exactly the mathematical value of its literal
    (or the literal is rejected), strings keep their content; the closed obligation that every parsed field is
    written exactly once.  Whole-document token preservation is tied by the correspondence run and evaluated by the
    oracle (general proof: the staged frame lemma, see DESIGN.md). *)
From Coq Require Import Ascii String List Bool NArith ZArith.
From A2L Require Import Text.Escape Text.IntText Gram.Spec Gram.WriterTable Gen.SpecShipped Gen.WriterShipped
     Proofs.EscapeProofs Proofs.IntTextProofs Proofs.GrammarObligations.
Import ListNotations.

(* decimal literals: whatever get_integer accepts is in the range of the field type - no silent change *)
Theorem C02_accepted_integer_fits : forall t text v hex, get_integer_text t text = Some (v, hex) -> in_range t v = true.
Proof. exact get_integer_in_range. Qed.
Print Assumptions C02_accepted_integer_fits.

(* hex literals are accepted only when their value fits the bit width of the field *)
Theorem C02_hex_literal_fits_width : forall t text v, get_integer_text t text = Some (v, true) ->
  exists u, parse_u64_hex (skipn 2 text) = Some u /\ (u < 2 ^ ity_bits t)%N /\ v = wrap t u.
Proof. exact get_integer_hex_fits. Qed.
Print Assumptions C02_hex_literal_fits_width.

Theorem C02_integer_written_is_read : forall t v hex, in_range t v = true ->
  get_integer_text t (add_integer_text t v hex) = Some (v, hex).
Proof. exact int_text_roundtrip. Qed.
Print Assumptions C02_integer_written_is_read.

Theorem C02_string_content_kept : forall s, unescape (escape s) = s.
Proof. exact unescape_escape. Qed.
Print Assumptions C02_string_content_kept.

Theorem C02_every_field_written_once : writer_consistent spec_shipped writer_shipped = true.
Proof. exact writer_is_consistent. Qed.
Print Assumptions C02_every_field_written_once.

(* the pre-fix behaviour, for the record: 0x10001 into a u16 field is rejected, 0xFFFF is the pattern of -1 in an i16 *)
Example C02_examples :
  get_integer_text U16 (list_ascii_of_string "0x10001") = None /\
  get_integer_text I16 (list_ascii_of_string "0xFFFF") = Some ((-1)%Z, true) /\
  get_integer_text U16 (list_ascii_of_string "65536") = None.
Proof. repeat split; vm_compute; reflexivity. Qed.
