(** C02 — content preservation.  Lexeme level: a stored integer is exactly the mathematical value of its literal
    (or the literal is rejected), strings keep their content; the closed obligation that every parsed field is
    written exactly once.  Element level, for every grammar: a successful run of the generic parser that reports nothing has
    consumed exactly the tokens that the writer prints for the value it returns, in the same order
    (C02_load_then_write_keeps_every_token and its text-level form); children are written in file order. *)
From Coq Require Import Ascii String List Bool NArith ZArith Sorting.Sorted.
From A2L Require Import Base.StableSort Text.Escape Text.IntText Lex.Tokenizer Gram.Spec A2ml.Types Gram.PState Gram.Parser Gram.Writer
     Gram.TokWriter Gram.WriterTable Gen.SpecShipped Gen.WriterShipped
     Proofs.EscapeProofs Proofs.IntTextProofs Proofs.GrammarObligations Proofs.CursorProofs Proofs.RoundTripProofs
     Proofs.RoundTripOrderProofs Proofs.LineOffsetProofs Proofs.ParseOrderProofs Proofs.ParseTraceProofs Proofs.LoadWriteDocProofs Proofs.LexUnitsProofs Proofs.LinePreservationProofs.
Import ListNotations.

(* decimal literals: whatever get_integer accepts is in the range of the field type - no silent change *)
Theorem C02_accepted_integer_fits : forall t text v hex, get_integer_text t text = Some (v, hex) -> in_range t v = true.
Proof. exact get_integer_in_range. Qed.
Print Assumptions C02_accepted_integer_fits.

(* hex literals are accepted only when their value fits the bit width of the field *)
Theorem C02_hex_literal_fits_width : forall t text v, get_integer_text t text = Some (v, true) ->
  exists u, parse_u64_hex (skipn 2 text) = Some u /\ (u < 2 ^ ity_bits t)%N /\ v = wrap t u.
Proof. exact get_integer_hex_fits. Qed.
Print Assumptions C02_hex_literal_fits_width.

Theorem C02_integer_written_is_read : forall t v hex, in_range t v = true ->
  get_integer_text t (add_integer_text t v hex) = Some (v, hex).
Proof. exact int_text_roundtrip. Qed.
Print Assumptions C02_integer_written_is_read.

Theorem C02_string_content_kept : forall s, unescape (escape s) = s.
Proof. exact unescape_escape. Qed.
Print Assumptions C02_string_content_kept.

Theorem C02_every_field_written_once : writer_consistent spec_shipped writer_shipped = true.
Proof. exact writer_is_consistent. Qed.
Print Assumptions C02_every_field_written_once.

(* the pre-fix behaviour, for the record: 0x10001 into a u16 field is rejected, 0xFFFF is the pattern of -1 in an i16 *)
Example C02_examples :
  get_integer_text U16 (list_ascii_of_string "0x10001") = None /\
  get_integer_text I16 (list_ascii_of_string "0xFFFF") = Some ((-1)%Z, true) /\
  get_integer_text U16 (list_ascii_of_string "65536") = None.
Proof. repeat split; vm_compute; reflexivity. Qed.


(** The direction load -> write for whole elements, for every grammar that meets [spec_ok] (nested field types are plain
    scalars or structs of plain scalars; a tagged item is a block exactly if its type is).  [reads_as ftab t w]: the written
    token w stands for the input token t - same type; identifiers verbatim; a string with the same content; a number as the
    canonical text of the value it was read as.  Conditions: one file, no comment tokens, non-strict mode, the run reports
    nothing, the value holds no A2ML / IF_DATA element and position restrictions reorder nothing ([good]). *)
Theorem C02_load_then_write_keeps_every_token : forall S posrs ftab ifuel, spec_ok S = true ->
  forall f td c off s v s', c_fileid c = O -> Inv s -> first_ok s -> ps_ftab s = ftab ->
    lookup_ty S (t_name td) = Some td -> t_special td = None ->
    parse_ty f S ifuel td c off s = (ROk v, s') -> ps_log s' = ps_log s -> good S posrs f td v ->
    exists ts, adv ts s s' /\ traced ftab ts (wtoks S posrs ftab f v ++ closing (is_blockb td) (c_element c)).
Proof.
  intros S posrs ftab ifuel Hs f td c off s v s' H1 H2 H3 H4 H5 H6 H7 H8 H9.
  destruct (parse_then_write S posrs ftab ifuel Hs f td c off s v s' H1 H2 H3 H4 H5 H6 H7 H8 H9) as (ts & A & T & _).
  exists ts. split; assumption.
Qed.
Print Assumptions C02_load_then_write_keeps_every_token.

(* the same from a text: tokenize, parse an element body; the tokens consumed are the tokens written *)
Theorem C02_text_element_tokens_are_written : forall S posrs ftab ifuel, spec_ok S = true ->
  forall f td tag line off text toks v s',
    tokenize_core 0 text = TOk toks -> forallb tok_okb toks = true -> toks <> [] ->
    lookup_ty S (t_name td) = Some td -> t_special td = None ->
    parse_ty f S ifuel td (mkCtx tag O line) off (init_state toks false 1 ftab) = (ROk v, s') -> ps_log s' = [] ->
    goodb S posrs f td v = true ->
    exists ts, toks = ts ++ ps_after s' /\ traced ftab ts (wtoks S posrs ftab f v ++ closing (is_blockb td) tag).
Proof. exact text_element_tokens_are_written. Qed.
Print Assumptions C02_text_element_tokens_are_written.

(* through the text: parse an element, write the value with the generic writer, tokenize the written text - the tokens of the
   written text stand, one by one and in order, for the tokens that were read (additionally: the conditions of the C01 writer
   theorem, confb and well-formed token texts) *)
Theorem C02_written_text_has_the_input_tokens : forall S posrs ftab names ifuel, spec_ok S = true ->
  forall f td c off s v s' nxt indent,
    c_fileid c = O -> Inv s -> first_ok s -> ps_ftab s = ftab ->
    lookup_ty S (t_name td) = Some td -> t_special td = None ->
    parse_ty f S ifuel td c off s = (ROk v, s') -> ps_log s' = ps_log s -> good S posrs f td v ->
    confb S posrs ftab f td v nxt = true -> Forall token_text (wtoks S posrs ftab f v) ->
    exists ts toks',
      adv ts s s' /\
      tokenize_core 0 (write_node S posrs ftab names f v indent) = TOk toks' /\
      traced ftab ts (map shape_of toks' ++ closing (is_blockb td) (c_element c)).
Proof. exact element_tokens_preserved. Qed.
Print Assumptions C02_written_text_has_the_input_tokens.

(* the writer lists the children of a block that the parser built in the order in which they were read *)
Theorem C02_children_are_written_in_file_order : forall S posrs titems K' P lo, length K' = length titems ->
  (forall i, nth i K' [] = kids_at i P) ->
  Forall (fun e : entry => nth_error titems (fst (fst e)) = Some (snd (fst e))) P ->
  uid_chain lo P ->
  group_order (kid_entries S posrs titems K') = ssort sort_leb (kid_entries S posrs titems K') ->
  ordered_kids S posrs titems K' = P.
Proof. exact ordered_kids_parse_order. Qed.
Print Assumptions C02_children_are_written_in_file_order.

(* a whole document: parse_file (version lines, root element, check for trailing tokens) on the token list of a file.  If it
   succeeds without a single warning, every token was consumed and the token list is, token by token, what the writer prints
   for the model *)
Theorem C02_document_tokens_are_written : forall S posrs ftab, spec_ok S = true ->
  (forall td, lookup_ty S "Asap2Version" = Some td -> fields_only S td = true) ->
  forall toks td v s',
    forallb tok_okb toks = true -> toks <> [] -> StronglySorted (fun a b => (tk_line a <= tk_line b)%N) toks ->
    lookup_ty S "A2lFile" = Some td -> t_special td = None ->
    parse_file S (init_state toks false 1 ftab) = (ROk v, s') -> ps_log s' = [] ->
    good S posrs (Datatypes.S (Datatypes.S (length toks))) td v ->
    ps_after s' = [] /\
    traced ftab toks (wtoks S posrs ftab (Datatypes.S (Datatypes.S (length toks))) v ++ closing (is_blockb td) (bytes_of "A2L_FILE")).
Proof. exact document_tokens_are_written. Qed.
Print Assumptions C02_document_tokens_are_written.

(* the shipped grammar meets the grammar condition (re-checked whenever the regenerated term changes) *)
Lemma C02_shipped_version_element_is_plain : forall td, lookup_ty spec_shipped "Asap2Version" = Some td -> fields_only spec_shipped td = true.
Proof. intros td H. vm_compute in H. injection H as <-. vm_compute. reflexivity. Qed.

Lemma C02_shipped_grammar_is_covered : spec_ok spec_shipped = true.
Proof. vm_compute. reflexivity. Qed.

(* the premises are met: the body of a MEASUREMENT with keyword and block children, taken from a text *)
Definition demo_body : string :=
  "speed ""vehicle speed"" UWORD cm_speed 1 0.5 0x0 0xFFFF ECU_ADDRESS 0x4000 /begin ANNOTATION ANNOTATION_LABEL ""lbl"" /end ANNOTATION BIT_MASK 255 /end MEASUREMENT".
Definition demo_ftab : list fentry := [mkFe (list_ascii_of_string "0.5") true 0x3FE0000000000000 (list_ascii_of_string "0.5") (list_ascii_of_string "5e-1") true 0x3FE0000000000000 (list_ascii_of_string "0.5") (list_ascii_of_string "5e-1")].
Definition demo_check : option (bool * bool * bool * bool * nat) :=
  match tokenize_core 0 (list_ascii_of_string demo_body), lookup_ty spec_shipped "Measurement" with
  | TOk toks, Some td =>
      match parse_ty 6 spec_shipped 6 td (mkCtx (list_ascii_of_string "MEASUREMENT") O 1) 0 (init_state toks false 1 demo_ftab) with
      | (ROk v, s') =>
          Some (forallb tok_okb toks, match ps_log s' with [] => true | _ => false end,
                match t_special td with None => true | Some _ => false end, goodb spec_shipped posr_shipped 6 td v,
                length (ps_after s'))
      | _ => None
      end
  | _, _ => None
  end.
Example C02_premises_are_met : demo_check = Some (true, true, true, true, O).
Proof. vm_compute. reflexivity. Qed.

(* ... and a whole document *)
Definition demo_doc : string :=
  "ASAP2_VERSION 1 71 /begin PROJECT p """" /begin HEADER ""h"" VERSION ""1"" /end HEADER /begin MODULE m """" /begin MEASUREMENT " ++ demo_body ++
  " /begin COMPU_METHOD cm_speed """" IDENTICAL ""%4.2"" ""km/h"" /end COMPU_METHOD /end MODULE /end PROJECT".
Definition demo_doc_check : option (bool * bool * bool * bool) :=
  match tokenize_core 0 (list_ascii_of_string demo_doc), lookup_ty spec_shipped "A2lFile" with
  | TOk toks, Some td =>
      match parse_file spec_shipped (init_state toks false 1 demo_ftab) with
      | (ROk v, s') =>
          Some (forallb tok_okb toks, match ps_log s' with [] => true | _ => false end,
                match t_special td with None => true | Some _ => false end,
                goodb spec_shipped posr_shipped (S (S (length toks))) td v)
      | _ => None
      end
  | _, _ => None
  end.
Example C02_document_premises_are_met : demo_doc_check = Some (true, true, true, true).
Proof. vm_compute. reflexivity. Qed.

(* ---------- IF_DATA that a definition describes: written as it was read ---------- *)
From A2L Require Proofs.IfdataFollowProofs Proofs.IfdataTraceProofs.
Module IF := A2L.Proofs.IfdataFollowProofs.
Module IT := A2L.Proofs.IfdataTraceProofs.

(* A successful run of the typed IF_DATA parser (ifdata.rs parse_ifdata_item: scalars, strings, enums, arrays, structs, sequences,
   tagged structs and tagged unions, keyword and block items, any nesting) that reports nothing has consumed exactly the tokens
   that GenericIfData::write prints for the value it returns ([IF.ftoks]: the tagged items in the order of the group writer), one by one
   in the same order: tags, /begin and /end verbatim, strings with the same content, numbers as the canonical text of the value
   they were read as ([reads_as], the relation of the theorem for the generic elements above).  Nothing is lost, nothing is
   invented, nothing changes its place - the items of a tagged struct are regrouped by tag in the model and still come out in
   reading order, because the ids they are given increase in that order. *)
Theorem C02_typed_if_data_is_written_as_it_was_read : forall ftab f ty c, c_fileid c = O -> (ty_depth ty <= f)%nat ->
  forall s g s', Inv s -> ps_ftab s = ftab -> parse_ifdata_item f ty c s = (ROk g, s') -> ps_log s' = ps_log s ->
  exists ts, adv ts s s' /\ Forall2 (reads_as ftab) ts (IF.ftoks ftab g).
Proof. intros ftab f ty c Hc Hd. exact (IT.typed_ifdata_is_written_as_it_was_read ftab f ty c Hc Hd). Qed.
Print Assumptions C02_typed_if_data_is_written_as_it_was_read.

(* whatever the outcome, the typed parser leaves the cursor at or behind the place where it started: every construct that gives
   up (a sequence item that does not match, a tag of another struct, a definition that does not fit) puts it back *)
Theorem C02_typed_if_data_parser_moves_forward_only : forall f ty c, c_fileid c = O -> (ty_depth ty <= f)%nat ->
  forall s r s', Inv s -> parse_ifdata_item f ty c s = (r, s') -> exists ts, adv ts s s'.
Proof. intros f ty c Hc Hd. exact (IT.moves_parse_ifdata_item f ty c Hc Hd). Qed.
Print Assumptions C02_typed_if_data_parser_moves_forward_only.

(* the whole IF_DATA content under the applicable definitions, tried in order (parse_ifdata: built-in definition first, then the one
   of the file's A2ML block; a definition that does not fit is abandoned and the cursor put back): when the block comes out VALID
   (the [true]) from a run that reports nothing, the tokens between the IF_DATA tag and /end are, one by one, the tokens the writer
   prints for the items of the block *)
Theorem C02_valid_if_data_block_is_written_as_it_was_read : forall ftab specs fuel c, c_fileid c = O ->
  forall s gb s', Inv s -> ps_ftab s = ftab -> parse_ifdata specs fuel c s = (ROk (Some gb, true), s') -> ps_log s' = ps_log s ->
  exists ts, adv ts s s' /\ Forall2 (reads_as ftab) ts (IF.ftoks ftab gb).
Proof. intros ftab specs fuel c Hc. exact (IT.valid_ifdata_is_written_as_it_was_read ftab specs fuel c Hc). Qed.
Print Assumptions C02_valid_if_data_block_is_written_as_it_was_read.

(* IF_DATA that no definition describes passes through: a successful run of the uninterpreted reader (parse_unknown_ifdata_start:
   leading tag, scalars, nested /begin .. /end blocks to any depth) that reports nothing has consumed exactly the tokens the writer
   prints for the value it keeps.  [reads_as] for a number: "the canonical text of the value it was read as" - an i32 if it is one, else
   an f32 if that is finite, else an f64; what the f32 cannot hold exactly is the known finding unknown-ifdata-number-precision, and
   the theorem is what remains true there: no token is lost, invented or moved. *)
From A2L Require Proofs.IfdataUnknownTraceProofs.
Module IU := A2L.Proofs.IfdataUnknownTraceProofs.
Theorem C02_uninterpreted_if_data_is_written_as_it_was_read : forall ftab fuel c, c_fileid c = O ->
  forall s g s', Inv s -> ps_ftab s = ftab -> unknown_ifdata_start fuel c s = (ROk g, s') -> ps_log s' = ps_log s ->
  exists ts, adv ts s s' /\ Forall2 (reads_as ftab) ts (IF.ftoks ftab g).
Proof. intros ftab fuel c Hc. exact (IU.unknown_ifdata_start_is_written_as_it_was_read ftab fuel c Hc). Qed.
Print Assumptions C02_uninterpreted_if_data_is_written_as_it_was_read.

(* both together: whatever parse_ifdata returns as the content of an IF_DATA block - interpreted (valid) or kept uninterpreted - from a
   run that reports nothing, the tokens between the IF_DATA tag and /end are the tokens the writer prints for it *)
Theorem C02_if_data_content_is_written_as_it_was_read : forall ftab specs fuel c, c_fileid c = O ->
  forall s g v s', Inv s -> ps_ftab s = ftab -> parse_ifdata specs fuel c s = (ROk (Some g, v), s') -> ps_log s' = ps_log s ->
  exists ts, adv ts s s' /\ Forall2 (reads_as ftab) ts (IF.ftoks ftab g).
Proof. intros ftab specs fuel c Hc. exact (IU.ifdata_content_is_written_as_it_was_read ftab specs fuel c Hc). Qed.
Print Assumptions C02_if_data_content_is_written_as_it_was_read.

(* ... and the IF_DATA element as the block parser meets it (IfData::parse, behind "/begin IF_DATA"): a run that reports nothing and
   returns a block with content has consumed the tokens of that content, /end and IF_DATA - the element is written as it was read *)
Theorem C02_if_data_block_is_written_as_it_was_read : forall ftab rec ifuel td newc lo, t_special td = Some "IfData"%string -> c_fileid newc = O ->
  forall s lay g v s', Inv s -> ps_ftab s = ftab ->
  parse_special_or_generic rec ifuel td newc lo s = (ROk (VIfData lay (Some g) v), s') -> ps_log s' = ps_log s ->
  exists ts tE tI, adv (ts ++ [tE; tI]) s s' /\ Forall2 (reads_as ftab) ts (IF.ftoks ftab g) /\ tk_type tE = TEnd /\
                   shape_of tI = (TIdentifier, bytes_of "IF_DATA").
Proof. intros ftab rec ifuel td newc lo Hsp Hc. exact (IU.ifdata_block_is_written_as_it_was_read ftab rec ifuel td newc lo Hsp Hc). Qed.
Print Assumptions C02_if_data_block_is_written_as_it_was_read.

(* the premises are met: a clean successful run on the tokens of a block with a keyword item, two blocks of one tag and sequences *)
Definition demo_if_spec : a2mlty :=
  TStruct [TUInt; TTaggedStruct [Tagged (bytes_of "A") false false TULong;
                                 Tagged (bytes_of "BLK") true true (TStruct [TUChar; TSequence TUInt])]].
Definition demo_if_text : bytes := bytes_of "5 /begin BLK 9 1 0x2 /end BLK A 7 /begin BLK 8 /end BLK /end IF_DATA".
Example C02_typed_if_data_clean_run :
  match tokenize_core 0 demo_if_text with
  | TOk toks =>
      let s := init_state toks false 1 [] in
      match parse_ifdata_item 5 demo_if_spec (mkCtx (bytes_of "IF_DATA") O 1) s with
      | (ROk g, s') => Some (match ps_log s' with [] => true | _ => false end, length (ps_after s'),
                             map shape_of (firstn (length toks - 2) toks), IF.ftoks [] g)
      | _ => None
      end
  | _ => None
  end = Some (true, 2%nat,
              [(TNumber, bytes_of "5"); (TBegin, begin_text); (TIdentifier, bytes_of "BLK"); (TNumber, bytes_of "9"); (TNumber, bytes_of "1");
               (TNumber, bytes_of "0x2"); (TEnd, end_text); (TIdentifier, bytes_of "BLK"); (TIdentifier, bytes_of "A"); (TNumber, bytes_of "7");
               (TBegin, begin_text); (TIdentifier, bytes_of "BLK"); (TNumber, bytes_of "8"); (TEnd, end_text); (TIdentifier, bytes_of "BLK")],
              [(TNumber, bytes_of "5"); (TBegin, begin_text); (TIdentifier, bytes_of "BLK"); (TNumber, bytes_of "9"); (TNumber, bytes_of "1");
               (TNumber, bytes_of "0x2"); (TEnd, end_text); (TIdentifier, bytes_of "BLK"); (TIdentifier, bytes_of "A"); (TNumber, bytes_of "7");
               (TBegin, begin_text); (TIdentifier, bytes_of "BLK"); (TNumber, bytes_of "8"); (TEnd, end_text); (TIdentifier, bytes_of "BLK")]).
Proof. vm_compute. reflexivity. Qed.

(* ... and on uninterpreted content with a leading tag, numbers (integer, hex, float), a string and nested blocks *)
Definition demo_unknown_shapes : list shape :=
  [(TIdentifier, bytes_of "VENDOR"); (TNumber, bytes_of "1"); (TNumber, bytes_of "0x10"); (TNumber, bytes_of "0.5"); (TString, bytes_of """s""");
   (TBegin, begin_text); (TIdentifier, bytes_of "SEG"); (TNumber, bytes_of "7"); (TIdentifier, bytes_of "x");
   (TBegin, begin_text); (TIdentifier, bytes_of "IN"); (TNumber, bytes_of "3"); (TEnd, end_text); (TIdentifier, bytes_of "IN");
   (TEnd, end_text); (TIdentifier, bytes_of "SEG"); (TIdentifier, bytes_of "k")].
Example C02_uninterpreted_if_data_clean_run :
  match tokenize_core 0 (bytes_of "VENDOR 1 0x10 0.5 ""s"" /begin SEG 7 x /begin IN 3 /end IN /end SEG k /end IF_DATA") with
  | TOk toks =>
      let s := init_state toks false 1 demo_ftab in
      match unknown_ifdata_start 50 (mkCtx (bytes_of "IF_DATA") O 1) s with
      | (ROk g, s') => Some (match ps_log s' with [] => true | _ => false end, length (ps_after s'),
                             map shape_of (firstn (length toks - 2) toks), IF.ftoks demo_ftab g)
      | _ => None
      end
  | _ => None
  end = Some (true, 2%nat, demo_unknown_shapes, demo_unknown_shapes).
Proof. vm_compute. reflexivity. Qed.

(* ---------- a recorded finding, as the model shows it ---------- *)
(* known finding position-restricted-reorder (C01 / C02): position-restricted children that are not in ascending position order in the
   input are written in position order - here FNC_VALUES 2 in front of AXIS_PTS_X 1 comes out behind it, from a load that reports nothing.
   (This is the "documented reordering of position-restricted items" of the statement; the theorems above exclude it through [good].) *)
Example C02_known_position_restricted_reorder_witness :
  match tokenize_core 0 (bytes_of "ASAP2_VERSION 1 71 /begin PROJECT p """" /begin MODULE m """" /begin RECORD_LAYOUT rl FNC_VALUES 2 UBYTE ROW_DIR DIRECT AXIS_PTS_X 1 UBYTE INDEX_INCR DIRECT /end RECORD_LAYOUT /end MODULE /end PROJECT") with
  | TOk toks =>
      match parse_file spec_shipped (init_state toks false 1 []) with
      | (ROk v, s') =>
          match tokenize_core 0 (write_node spec_shipped posr_shipped [] [] 12 v 0) with
          | TOk toks2 => Some (ps_log s', map (fun t => string_of_list_ascii (tk_text t)) (firstn 10 (skipn 14 toks2)))
          | _ => None
          end
      | _ => None
      end
  | _ => None
  end = Some ([], ["AXIS_PTS_X"; "1"; "UBYTE"; "INDEX_INCR"; "DIRECT"; "FNC_VALUES"; "2"; "UBYTE"; "ROW_DIR"; "DIRECT"]%string).
Proof. vm_compute. reflexivity. Qed.
