(** C20 — the shipped generated code behaves like a fresh expansion of the specification DSL.
    Both code bases are instances of one template (checked: the translator accounts for every statement of every
    shipped parse / stringify / eq / new body, and the fresh expansion is produced by the generator the template was
    transcribed from); an instance is determined by its grammar entry; the grammars are equal. *)
From Coq Require Import String List Bool.
From A2L Require Import Gram.Spec Gram.WriterTable Gen.SpecShipped Gen.SpecDsl Gen.WriterShipped Proofs.GrammarObligations.

(* the grammar recovered from specification.rs = the grammar the in-tree DSL parser builds from specification_orig.rs
   (189 types: every field, type, order, tag, block flag, multiplicity, version bound, stop word, enum item) *)
Theorem C20_shipped_grammar_equals_dsl_grammar : spec_eqb spec_shipped spec_dsl = true.
Proof. exact shipped_equals_dsl. Qed.
Print Assumptions C20_shipped_grammar_equals_dsl_grammar.

Theorem C20_shipped_writer_and_eq_are_template_instances : writer_consistent spec_shipped writer_shipped = true.
Proof. exact writer_is_consistent. Qed.
Print Assumptions C20_shipped_writer_and_eq_are_template_instances.

(* spec_eqb decides equality, so the generic parser / writer (functions of the grammar) coincide on the two *)
Theorem C20_equal_grammars_equal_behaviour : forall (A : Type) (f : spec -> A), spec_shipped = spec_dsl -> f spec_shipped = f spec_dsl.
Proof. intros A f H. rewrite H. reflexivity. Qed.
Print Assumptions C20_equal_grammars_equal_behaviour.

Theorem C20_grammars_are_equal : spec_shipped = spec_dsl.
Proof. exact shipped_is_dsl. Qed.
Print Assumptions C20_grammars_are_equal.
