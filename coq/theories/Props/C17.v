(** C17 — the loaded model does not depend on the file's text encoding. *)
From Coq Require Import List NArith Bool.
From A2L Require Import Lib.Encoding Proofs.EncodingProofs.
Import ListNotations.
Local Open Scope N_scope.

(* For each of the ten encodings (UTF-8, UTF-16 LE/BE, UTF-32 LE/BE, each with and without BOM), for every text
   (non-empty sequence of Unicode scalar values without NUL whose first character is ASCII - any length, any
   characters incl. non-BMP): what the loader hands to the tokenizer is exactly the UTF-8 form of the text, i.e.
   the same string load_from_string receives. *)
Theorem C17_decode_encode : forall e t, text_ok t -> load_text (encode e t) = utf8_enc t.
Proof. exact load_encode_all. Qed.
Print Assumptions C17_decode_encode.

(* bytes that are not valid Unicode in any of the three families are read as Latin-1 *)
Theorem C17_latin1_fallback : forall fd, try_utf32 fd = None -> try_utf16 fd = None -> utf8_valid fd = false ->
  decode_raw_bytes fd = utf8_enc fd.
Proof. exact latin1_fallback. Qed.
Print Assumptions C17_latin1_fallback.

(* the result of the UTF-8 encoder is always accepted by the strict UTF-8 validator *)
Theorem C17_utf8_encoder_valid : forall t, Forall (fun c => is_scalar c = true) t -> utf8_valid (utf8_enc t) = true.
Proof. exact utf8_enc_valid. Qed.
Print Assumptions C17_utf8_encoder_valid.

Theorem C17_utf16_roundtrip : forall t, Forall (fun c => is_scalar c = true) t -> utf16_dec (flat_map utf16_enc1 t) = Some t.
Proof. exact utf16_dec_enc. Qed.
Print Assumptions C17_utf16_roundtrip.

(* decode_raw_bytes is a total function of the bytes: its model is a Coq function (no partial operation, no fuel
   outcome visible in its type); stated for the record as: it always returns some byte list *)
Theorem C17_decode_total : forall fd, exists s, decode_raw_bytes fd = s.
Proof. intros fd. eexists. reflexivity. Qed.
Print Assumptions C17_decode_total.

(* non-vacuity: a text with Latin-1, BMP and non-BMP characters satisfies the guard *)
Example C17_guard_satisfiable : text_ok [65; 0xE9; 0x20AC; 0x1F600; 10].
Proof.
  cbn. split; [reflexivity|]. split; [reflexivity|].
  repeat (constructor; [split; [reflexivity | discriminate]|]). constructor.
Qed.
