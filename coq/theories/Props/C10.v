(** C10 — cleanup removes only, and all, unreferenced helper elements.
    Statements about the model Lib/Cleanup.v (the four passes of cleanup.rs over the part of a MODULE they read or
    write).  Proved: the COMPU_METHOD / conversion table / UNIT / RECORD_LAYOUT pass in both directions (what is still
    referenced stays, what stays is referenced, REF_UNIT chains and cycles of any length), and for GROUPs that whatever
    USER_RIGHTS names or still lists an object is never removed; running cleanup twice gives the same result as running it
    once, for the whole model (C10_cleanup_twice_is_cleanup_once).  That the worklists of groups.rs / functions.rs compute
    what the rounds of the model compute is tied by the correspondence run. *)
From Coq Require Import String List NArith Bool Ascii.
From A2L Require Import Text.Escape Lib.Merge Lib.Cleanup Proofs.CleanupProofs Proofs.CleanupIdemProofs.
Import ListNotations.

(* measurement and calibration objects: the model of cleanup has no way to touch them (only their conversion and
   FUNCTION_LIST slots, see below) *)
Theorem C10_objects_are_kept : forall m, m_objs (cleanup m) = m_objs m.
Proof. exact cleanup_keeps_objects. Qed.
Print Assumptions C10_objects_are_kept.
Theorem C10_use_slots_are_kept : forall m,
  m_conv_ro (cleanup m) = m_conv_ro m /\ m_rl_uses (cleanup m) = m_rl_uses m /\ m_grp_uses (cleanup m) = m_grp_uses m /\
  length (m_conv (cleanup m)) = length (m_conv m) /\ length (m_obj_funcs (cleanup m)) = length (m_obj_funcs m).
Proof. exact cleanup_keeps_use_slots. Qed.
Print Assumptions C10_use_slots_are_kept.

(* COMPU_METHOD *)
Theorem C10_conversions_resolve_after : forall m c, In c (ac_conv (cleanup_compu_methods m)) ->
  c = NO_CM \/ In c (cm_names (ac_cms (cleanup_compu_methods m))).
Proof. exact conversions_resolve_after. Qed.
Print Assumptions C10_conversions_resolve_after.
Theorem C10_overwrite_conversions_stay : forall m c, In c (m_conv_ro m) -> In c (cm_names (m_cms m)) ->
  In c (cm_names (ac_cms (cleanup_compu_methods m))).
Proof. exact overwrite_conversions_stay. Qed.
Print Assumptions C10_overwrite_conversions_stay.
Theorem C10_compu_method_removed_iff_unused : forall m c, In c (m_cms m) ->
  (In (cm_nm c) (cm_names (ac_cms (cleanup_compu_methods m))) <->
   In (cm_nm c) (ac_conv (cleanup_compu_methods m) ++ m_conv_ro m)).
Proof. exact compu_method_removed_iff_unused. Qed.
Print Assumptions C10_compu_method_removed_iff_unused.

(* conversion tables, including STATUS_STRING_REF *)
Theorem C10_tables_of_remaining_methods_stay : forall m c t,
  In c (ac_cms (cleanup_compu_methods m)) -> (cm_tab c = Some t \/ cm_ssr c = Some t) ->
  In t (map snd (m_tabs m)) -> In t (tabs_after m).
Proof. exact tables_of_remaining_methods_stay. Qed.
Print Assumptions C10_tables_of_remaining_methods_stay.
Theorem C10_compu_tab_refs_resolve_after : forall m c t,
  In c (ac_cms (cleanup_compu_methods m)) -> cm_tab c = Some t -> In t (tabs_after m).
Proof. exact compu_tab_refs_resolve_after. Qed.
Print Assumptions C10_compu_tab_refs_resolve_after.
Theorem C10_remaining_tables_are_used : forall m t, In t (tabs_after m) ->
  exists c, In c (ac_cms (cleanup_compu_methods m)) /\ (cm_tab c = Some t \/ cm_ssr c = Some t).
Proof. exact remaining_tables_are_used. Qed.
Print Assumptions C10_remaining_tables_are_used.

(* UNIT: chains and cycles of REF_UNIT of any length *)
Theorem C10_units_of_remaining_methods_stay : forall m c u,
  In c (ac_cms (cleanup_compu_methods m)) -> cm_unit c = Some u -> In u (map u_nm (ac_units (cleanup_compu_methods m))).
Proof. exact units_of_remaining_methods_stay. Qed.
Print Assumptions C10_units_of_remaining_methods_stay.
Theorem C10_units_of_remaining_units_stay : forall m u r,
  In u (ac_units (cleanup_compu_methods m)) -> u_ref u = Some r -> In r (map u_nm (m_units m)) ->
  In r (map u_nm (ac_units (cleanup_compu_methods m))).
Proof. exact units_of_remaining_units_stay. Qed.
Print Assumptions C10_units_of_remaining_units_stay.
Theorem C10_remaining_units_are_used : forall m u, In u (ac_units (cleanup_compu_methods m)) ->
  unit_reachable (m_units m)
    (flat_map (fun c => opt_list (cm_unit c))
       (filter (fun c => mem (cm_nm c) (map (fix_conv (m_cms m)) (m_conv m) ++ m_conv_ro m)) (m_cms m))) (u_nm u).
Proof. exact remaining_units_are_used. Qed.
Print Assumptions C10_remaining_units_are_used.

(* RECORD_LAYOUT *)
Theorem C10_record_layout_kept_iff_used : forall m r, In r (m_rls m) ->
  (In r (cleanup_record_layouts m) <-> In r (m_rl_uses m)).
Proof. exact record_layout_kept_iff_used. Qed.
Print Assumptions C10_record_layout_kept_iff_used.

(* GROUP *)
Theorem C10_protected_groups_stay : forall m g, NoDup (map g_nm (m_groups m)) -> In g (m_groups m) ->
  let valid := group_refnames m in
  let g0 := mkG (g_nm g) (g_sub g) (retain_drop valid (g_rc g)) (retain_drop valid (g_rm g)) (g_fl g) in
  group_protected (m_grp_uses m) g0 = true ->
  exists g', In g' (cleanup_groups m) /\ g_nm g' = g_nm g /\ g_rc g' = g_rc g0 /\ g_rm g' = g_rm g0.
Proof. exact protected_groups_stay. Qed.
Print Assumptions C10_protected_groups_stay.
Theorem C10_no_group_is_invented : forall m x, In x (map g_nm (cleanup_groups m)) -> In x (map g_nm (m_groups m)).
Proof. exact cleanup_groups_names. Qed.
Print Assumptions C10_no_group_is_invented.

(* non-vacuity and the two defects the property names, on the fixed code, by computation:
   cm uses vt only through STATUS_STRING_REF; u1 -> u2 -> u3 is a REF_UNIT chain hanging on cm; u4 -> u5 is unused *)
Example C10_example :
  let s := (fun x : string => list_ascii_of_string x) in
  let m := mkM [(4%N, s "me"%string)] [] []
               [mkCM (s "cm"%string) None (Some (s "u1"%string)) (Some (s "vt"%string)); mkCM (s "unused"%string) None None None]
               [(1%N, s "vt"%string); (0%N, s "t2"%string)]
               [mkU (s "u1"%string) (Some (s "u2"%string)); mkU (s "u2"%string) (Some (s "u3"%string)); mkU (s "u3"%string) None;
                mkU (s "u4"%string) (Some (s "u5"%string)); mkU (s "u5"%string) None]
               [s "rl"%string; s "rl2"%string] [s "cm"%string] [] [] [s "rl"%string] [] in
  (cm_names (m_cms (cleanup m)), map snd (m_tabs (cleanup m)), map u_nm (m_units (cleanup m)), m_rls (cleanup m), cleanup (cleanup m) = cleanup m)
  = ([s "cm"%string], [s "vt"%string], [s "u1"%string; s "u2"%string; s "u3"%string], [s "rl"%string], cleanup (cleanup m) = cleanup m).
Proof. vm_compute. reflexivity. Qed.

(* a second run changes nothing: the COMPU_METHOD / table / UNIT pass and the RECORD_LAYOUT pass are idempotent *)
Theorem C10_compu_method_pass_is_idempotent : forall m, cleanup_compu_methods (after_module m) = cleanup_compu_methods m.
Proof. exact compu_method_pass_is_idempotent. Qed.
Print Assumptions C10_compu_method_pass_is_idempotent.
Theorem C10_record_layout_pass_is_idempotent : forall m,
  filter (fun r => mem r (m_rl_uses m)) (cleanup_record_layouts m) = cleanup_record_layouts m.
Proof. exact record_layout_pass_is_idempotent. Qed.
Print Assumptions C10_record_layout_pass_is_idempotent.

(* FUNCTION: whatever an object or a group lists, or still refers to an existing object, is never removed *)
Theorem C10_protected_functions_stay : forall used fs f, NoDup (map f_nm fs) -> In f fs -> func_protected used f = true ->
  exists f', In f' (iterate (S (length fs)) (funcs_round used) fs) /\ f_nm f' = f_nm f /\
             f_rc f' = f_rc f /\ f_dc f' = f_dc f /\ f_in f' = f_in f /\ f_loc f' = f_loc f /\ f_out f' = f_out f.
Proof. exact protected_functions_stay. Qed.
Print Assumptions C10_protected_functions_stay.


(** running cleanup twice gives the same result as running it once: the four passes in the order of cleanup.rs, for every
    module whose FUNCTION names are unique.  The GROUP and FUNCTION rounds reach a state in which nothing more can go within
    the fuel of the model; a second run finds every list already reduced; the passes do not disturb each other. *)
Theorem C10_cleanup_twice_is_cleanup_once : forall m, NoDup (map f_nm (m_funcs m)) -> cleanup (cleanup m) = cleanup m.
Proof. exact cleanup_twice. Qed.
Print Assumptions C10_cleanup_twice_is_cleanup_once.

(* the premise is met and the first run does something: f1 is listed by the group g, f2 - f3 is a chain of empty functions
   (f3 goes in the first round, then f2), gsub is an empty group below gtop, which is empty afterwards *)
Example C10_idempotence_example :
  let s := (fun x : string => list_ascii_of_string x) in
  let m := mkM [(4%N, s "me"%string)]
               [mkG (s "g"%string) None None (Some [s "me"%string]) (Some [s "f1"%string]);
                mkG (s "gtop"%string) (Some [s "gsub"%string]) None None None; mkG (s "gsub"%string) None None None None]
               [mkF (s "f1"%string) None None None None None None None;
                mkF (s "f2"%string) (Some [s "f3"%string]) None None None None None None;
                mkF (s "f3"%string) None None None None None None None]
               [] [] [] [] [] [] [] [] [] in
  (map g_nm (m_groups (cleanup m)), map f_nm (m_funcs (cleanup m))) = ([s "g"%string], [s "f1"%string]).
Proof. vm_compute. reflexivity. Qed.
