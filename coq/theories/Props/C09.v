(** C09 — merge preserves the reference structure of the merged-in file.
    A slot is one reference of module B (site, target name); [covered] is the set of sites the rename functions
    of merge.rs visit.  The general theorems hold for every such set; the closed obligations at the end state
    what the set is for the current code (Gen/Sites.v, regenerated from ref/sites.json on every run and compared
    with what the implementation does at every site instance). *)
From Coq Require Import String List NArith Bool Ascii.
From A2L Require Import Text.Escape Lib.Merge Lib.MergeRefs Proofs.MergeProofs Proofs.MergeRefProofs Gen.Sites Run.RunC09.
Import ListNotations.

(* at a visited site: after the merge the reference designates the representative of the element it designated
   in B - the shared twin, the element itself, or the element under its new name - which has the same kind and
   content; this holds whatever else the two namespaces contain *)
Theorem C09_reference_designates_the_representative :
  forall covered orig merge slots res slots' s x,
  NoDup (names merge) -> merge_with_refs covered orig merge slots = Some (res, slots') ->
  In s slots -> covered (sl_site s) = true ->
  resolve (sl_target s) merge = Some x ->
  In (rename_slot covered (match calc_actions orig merge with Some (_, r) => r | None => [] end) s) slots' /\
  resolve (sl_target (rename_slot covered (match calc_actions orig merge with Some (_, r) => r | None => [] end) s)) res
  = Some (representative orig merge x) /\
  it_kind (representative orig merge x) = it_kind x /\ it_body (representative orig merge x) = it_body x.
Proof. exact covered_reference_preserved. Qed.
Print Assumptions C09_reference_designates_the_representative.

(* at a site that is not visited: a reference to an element that had to be renamed silently designates A's
   element of that name, which is neither the original target nor its representative *)
Theorem C09_unvisited_site_is_retargeted :
  forall covered orig merge slots res slots' s x nn,
  NoDup (names merge) -> merge_with_refs covered orig merge slots = Some (res, slots') ->
  In s slots -> covered (sl_site s) = false ->
  resolve (sl_target s) merge = Some x -> classify orig merge x = CRen nn ->
  In s slots' /\ exists o, resolve (sl_target s) res = Some o /\ In o orig /\ o <> x /\
                           o <> representative orig merge x.
Proof. exact uncovered_reference_retargeted. Qed.
Print Assumptions C09_unvisited_site_is_retargeted.

(* the representative is found under the name it is stored under (no other element of the result has that name
   in front of it) *)
Theorem C09_representative_resolves : forall orig merge m, NoDup (names merge) -> In m merge ->
  resolve (it_name (representative orig merge m)) (orig ++ flat_map (repr orig merge) merge)
  = Some (representative orig merge m).
Proof. exact representative_resolves. Qed.
Print Assumptions C09_representative_resolves.

(* known finding "shared-twin-with-renamed-target": an element of B that is shared with its twin in A keeps the
   references of A's twin, i.e. nothing is renamed in it - the statement above with no site visited: a reference to a
   renamed element of the same namespace then designates A's element of that name *)
Theorem C09_shared_twin_refuted :
  forall orig merge slots res slots' s x nn,
  NoDup (names merge) -> merge_with_refs (fun _ => false) orig merge slots = Some (res, slots') ->
  In s slots -> resolve (sl_target s) merge = Some x -> classify orig merge x = CRen nn ->
  exists o, resolve (sl_target s) res = Some o /\ In o orig /\ o <> x /\ o <> representative orig merge x.
Proof.
  intros orig merge slots res slots' s x nn Hn Hm Hs Hx Hc.
  exact (proj2 (uncovered_reference_retargeted (fun _ => false) orig merge slots res slots' s x nn Hn Hm Hs eq_refl Hx Hc)).
Qed.
Print Assumptions C09_shared_twin_refuted.
(* witness, by computation: A = {tm "A" (content 1), ts -> tm}, B = {tm "B" (content 2), ts identical} *)
Example C09_shared_twin_witness :
  let s := (fun x : string => list_ascii_of_string x) in
  merge_ns [mkItem 3%N (s "tm"%string) 1%N; mkItem 4%N (s "ts"%string) 7%N]
           [mkItem 3%N (s "tm"%string) 2%N; mkItem 4%N (s "ts"%string) 7%N]
  = Some [mkItem 3%N (s "tm"%string) 1%N; mkItem 4%N (s "ts"%string) 7%N; mkItem 3%N (s "tm.MERGE"%string) 2%N].
Proof. vm_compute. reflexivity. Qed.

(* closed obligations on the site table of the current code: every reference site of the grammar whose target
   lives in a namespace in which merge renames is visited by the rename function of that namespace *)
Definition in_renamed_namespace (s : site) : bool :=
  existsb (fun n => String.eqb n (st_ns s)) renamed_namespaces.
Definition site_visited (s : site) : bool :=
  match st_merge s with Some true => true | _ => false end.
Definition unvisited_sites : list (string * string) :=
  map (fun s => (st_name s, st_parent s))
      (filter (fun s => in_renamed_namespace s && negb (site_visited s)) sites).

Example C09_every_site_of_a_renaming_namespace_is_visited : unvisited_sites = [].
Proof. vm_compute. reflexivity. Qed.

Example C09_table_has_all_site_instances : length sites = 60.
Proof. vm_compute. reflexivity. Qed.

(* the ids used by the executable model are the positions in the table *)
Example C09_site_ids_are_positions : map st_id sites = map N.of_nat (seq 0 (length sites)).
Proof. vm_compute. reflexivity. Qed.
