(** C04 — grammar conformance.  Closed obligation: the grammar implemented by the shipped code is the frozen reference
    copy of the A2L 1.7.1 grammar (every element, parameter order and type, optional / required / repeatable sub-element,
    block vs keyword form, version range, enum item).  Generic lemmas: each deviation class produces its diagnostic class at
    the generic parser's decision points, in the modes the property names.  Acceptance of every conforming document is tied
    by the correspondence run (the model IS the grammar interpreter) and evaluated exhaustively over element kinds. *)
From Coq Require Import Ascii String List Bool NArith ZArith.
From A2L Require Import Text.Escape Lex.Tokenizer Gram.Spec Gram.PState Gram.Parser Gen.SpecShipped Gen.SpecRef
     Proofs.GrammarObligations Proofs.ConformProofs.
Import ListNotations.

Theorem C04_shipped_grammar_is_reference_grammar : spec_shipped = spec_ref.
Proof. exact shipped_is_reference. Qed.
Print Assumptions C04_shipped_grammar_is_reference_grammar.

Theorem C04_block_as_keyword : forall tag c s, Nat.ltb (c_fileid c) (ps_nfiles s) = true ->
  require_block tag false c s = (RErr (diag_of "IncorrectBlockError" c tag s), s).
Proof. exact block_as_keyword_rejected. Qed.
Print Assumptions C04_block_as_keyword.

Theorem C04_keyword_as_block : forall tag c s, Nat.ltb (c_fileid c) (ps_nfiles s) = true ->
  require_keyword tag true c s = (RErr (diag_of "IncorrectKeywordError" c tag s), s).
Proof. exact keyword_as_block_rejected. Qed.
Print Assumptions C04_keyword_as_block.

Theorem C04_duplicate_single_strict : forall c tag s, ps_strict s = true -> Nat.ltb (c_fileid c) (ps_nfiles s) = true ->
  handle_multiplicity_error c tag true s = (RErr (diag_of "InvalidMultiplicityTooMany" c tag s), s).
Proof. exact duplicate_single_strict. Qed.
Print Assumptions C04_duplicate_single_strict.

Theorem C04_duplicate_single_lenient : forall c tag s, ps_strict s = false -> Nat.ltb (c_fileid c) (ps_nfiles s) = true ->
  handle_multiplicity_error c tag true s = (ROk tt, upd_log s (diag_of "InvalidMultiplicityTooMany" c tag s :: ps_log s)).
Proof. exact duplicate_single_lenient. Qed.
Print Assumptions C04_duplicate_single_lenient.

Theorem C04_missing_required : forall ti ir k kr c s,
  ti_required ti = true -> ti_repeat ti = false -> k = [] -> Nat.ltb (c_fileid c) (ps_nfiles s) = true ->
  multiplicity_check (ti :: ir) (k :: kr) c s = (RErr (diag_of "InvalidMultiplicityNotPresent" c (bytes_of (ti_tag ti)) s), s).
Proof. exact missing_required_single. Qed.
Print Assumptions C04_missing_required.

Theorem C04_unknown_enum_value : forall td c s txt s1,
  get_identifier c s = (ROk txt, s1) -> find_enumitem (t_enum td) txt = None -> Nat.ltb (c_fileid c) (ps_nfiles s1) = true ->
  parse_enum td c s = (RErr (diag_of "InvalidEnumValue" c txt s1), s1).
Proof. exact unknown_enum_rejected. Qed.
Print Assumptions C04_unknown_enum_value.

Theorem C04_too_new_strict : forall c tag v s, version_ltb (ps_ver s) v = true -> ps_strict s = true ->
  Nat.ltb (c_fileid c) (ps_nfiles s) = true -> check_block_version_lower c tag v s = (RErr (diag_of "BlockRefTooNew" c tag s), s).
Proof. exact too_new_strict. Qed.
Print Assumptions C04_too_new_strict.

Theorem C04_too_new_lenient : forall c tag v s, version_ltb (ps_ver s) v = true -> ps_strict s = false ->
  Nat.ltb (c_fileid c) (ps_nfiles s) = true ->
  check_block_version_lower c tag v s = (ROk tt, upd_log s (diag_of "BlockRefTooNew" c tag s :: ps_log s)).
Proof. exact too_new_lenient. Qed.
Print Assumptions C04_too_new_lenient.

Theorem C04_deprecated_is_a_warning : forall c tag v s, version_ltb v (ps_ver s) = true -> Nat.ltb (c_fileid c) (ps_nfiles s) = true ->
  check_block_version_upper c tag v s = (ROk tt, upd_log s (diag_of "BlockRefDeprecated" c tag s :: ps_log s)).
Proof. exact deprecated_warns. Qed.
Print Assumptions C04_deprecated_is_a_warning.

Theorem C04_six_versions : forall a b c d v, a2l_version_new a b = Some v -> a2l_version_new c d = Some v -> (a = c /\ b = d)%Z.
Proof. exact version_table_inj. Qed.
Print Assumptions C04_six_versions.
