(** C15 — sort_new_items(): stable placement over arbitrarily long edit histories. *)
From Coq Require Import String List ZArith Sorting.Sorted Lia.
From A2L Require Import Base.Res Base.StableSort Lib.Sort Proofs.SortProofs.
Import ListNotations.
Local Open Scope Z_scope.

(* One call on one list whose already placed elements [p] are in order (true after loading and
   after every earlier call) followed by new elements [z] (uid 0), all uids small enough:
   the placed elements keep their order and get their uid doubled, the new ones follow, sorted by
   (line, name), with the uid directly behind the last placed element (0 = "at the end" if none). *)
Theorem C15_placed_prefix_stable : forall debug p z,
  Sorted (leP le_named) p -> Forall placed p -> Forall isnew z -> Forall fits (p ++ z) ->
  sort_objectlist_new debug (p ++ z) = Ok (map dbl p ++ map (assign (lastuid p 0)) (ssort le_named z)).
Proof. exact sol_new_prefix_stable. Qed.
Print Assumptions C15_placed_prefix_stable.

(* the writer's comparison between any two placed elements (of any kinds) is unchanged by the doubling *)
Theorem C15_writer_order_of_placed_unchanged : forall a b, placed a -> placed b ->
  sort_function (dbl a) (dbl b) = sort_function a b.
Proof. exact sort_function_dbl. Qed.
Print Assumptions C15_writer_order_of_placed_unchanged.

(* a new element that received 2*M+1 (M = uid of the last placed element of its kind) is written after
   exactly those placed elements of the whole module whose uid was <= M: directly behind that element *)
Theorem C15_new_directly_after_last_of_kind : forall a n M, 0 < e_uid a -> 0 <= M ->
  sort_function (dbl a) (assign (2 * M + 1) n) = (if e_uid a <=? M then Lt else Gt).
Proof. exact sort_function_new_vs_placed. Qed.
Print Assumptions C15_new_directly_after_last_of_kind.

(* the result is again of the shape the first theorem needs *)
Theorem C15_shape_preserved : forall p, Forall placed p -> Sorted (leP le_named) p -> Sorted (leP le_named) (map dbl p).
Proof. exact dbl_sorted. Qed.
Print Assumptions C15_shape_preserved.

(* any number k of consecutive calls: list order untouched, every uid multiplied by 2^k — as long as
   the products stay below 2^32 *)
Theorem C15_k_calls_scale_uids : forall debug k p c, 0 < c ->
  Sorted (leP le_named) (map (scale c) p) -> Forall placed (map (scale c) p) ->
  Forall (fun e => 0 <= e_uid e /\ c * 2 ^ Z.of_nat k * e_uid e < U32) p ->
  iter_sol debug k (map (scale c) p) = Ok (map (scale (c * 2 ^ Z.of_nat k)) p).
Proof. exact iter_sol_scales. Qed.
Print Assumptions C15_k_calls_scale_uids.

(* ... and the guard cannot be dropped: the unbounded statement of the property is FALSE for the code.
   With one placed element in a list, 32 consecutive calls can never all succeed in a debug build. *)
Theorem C15_thirty_two_calls_overflow : forall l e, In e l -> 0 < e_uid e ->
  forall l', iter_sol true 32 l <> Ok l'.
Proof. exact sol_new_32_calls_panic. Qed.
Print Assumptions C15_thirty_two_calls_overflow.

(* the writer's and the list's comparators are total preorders (so "stable sort" determines the order) *)
Theorem C15_writer_cmp_total : forall a b, le_writer a b = true \/ le_writer b a = true.
Proof. exact le_writer_total. Qed.
Print Assumptions C15_writer_cmp_total.
Theorem C15_writer_cmp_trans : forall a b c, le_writer a b = true -> le_writer b c = true -> le_writer a c = true.
Proof. exact le_writer_trans. Qed.
Print Assumptions C15_writer_cmp_trans.

(* witness of the refutation, by computation: one element with uid 1, 32 calls *)
Example C15_overflow_witness :
  iter_sol true 32 [mkEl "MEASUREMENT" "m" 0%N 1 1 1 1] = Panic "sort.rs: attempt to multiply with overflow".
Proof. vm_compute. reflexivity. Qed.

(* non-vacuity of the guard of the first theorem *)
Example C15_guard_satisfiable :
  let p := [mkEl "MEASUREMENT" "a" 0%N 5 10 1 1; mkEl "MEASUREMENT" "b" 0%N 9 20 1 1] in
  let z := [mkEl "MEASUREMENT" "n" 0%N 0 0 2 1] in
  Sorted (leP le_named) p /\ Forall placed p /\ Forall isnew z /\ Forall fits (p ++ z) /\
  sort_objectlist_new true (p ++ z) =
    Ok [mkEl "MEASUREMENT" "a" 0%N 10 10 1 1; mkEl "MEASUREMENT" "b" 0%N 18 20 1 1; mkEl "MEASUREMENT" "n" 0%N 19 0 2 1].
Proof.
  cbv zeta. repeat split.
  - repeat constructor.
  - repeat constructor; unfold placed; simpl; discriminate.
  - repeat constructor.
  - repeat constructor; unfold fits, fitsZ, U32; simpl; lia.
Qed.
