(** C13 — ItemList: name index and positions stay coherent under every operation.
    Only theorem statements; proofs are in Proofs/ItemListProofs.v. *)
From Coq Require Import String List NArith.
From A2L Require Import Base.Res Lib.ItemList Proofs.ItemListProofs.
Import ListNotations.
Local Open Scope string_scope.

(* Every history of operations that keeps names unique ([ops_ok]: pushed / extended /
   collected / renamed-to names are fresh), started from any coherent list, runs without
   panic, yields exactly the plain-vector specification's items, and ends coherent. *)
Theorem C13_history_refines_vector :
  forall ops l, Inv l -> ops_ok (items l) ops ->
  exists l', run l ops = Ok l' /\ items l' = spec_run (items l) ops /\ Inv l'.
Proof. exact run_refines. Qed.
Print Assumptions C13_history_refines_vector.

(* single step: result value and new contents equal the specification's, invariant kept *)
Theorem C13_step_refines_vector :
  forall l o, Inv l -> op_ok (items l) o ->
  exists l', step l o = Ok (l', snd (spec_step (items l) o)) /\
             items l' = fst (spec_step (items l) o) /\ Inv l'.
Proof. exact step_refines. Qed.
Print Assumptions C13_step_refines_vector.

(* no operation panics on a coherent list for any argument, in range or not, fresh or not *)
Theorem C13_no_panic :
  forall l o, Inv l -> forall site, step l o <> Panic site.
Proof. exact step_no_panic. Qed.
Print Assumptions C13_no_panic.

(* coherence means: index(k) is exactly the position of the element named k *)
Theorem C13_lookup_is_position :
  forall l k i, Inv l ->
  (il_index l k = Some i <-> exists it, nth_error (items l) i = Some it /\ iname it = k).
Proof. exact inv_index_position. Qed.
Print Assumptions C13_lookup_is_position.

Theorem C13_get_is_spec_lookup :
  forall l k, Inv l -> il_get l k = Ok (spec_get (items l) k).
Proof. exact inv_get. Qed.
Print Assumptions C13_get_is_spec_lookup.

Theorem C13_all_reachable :
  forall l it, Inv l -> In it (items l) -> il_get l (iname it) = Ok (Some it).
Proof. exact inv_all_reachable. Qed.
Print Assumptions C13_all_reachable.

Theorem C13_absent_unreachable :
  forall l k, Inv l -> ~ In k (names (items l)) ->
  il_get l k = Ok None /\ il_contains_key l k = false /\ il_index l k = None.
Proof. exact inv_absent_unreachable. Qed.
Print Assumptions C13_absent_unreachable.

Theorem C13_new_is_coherent : Inv il_new.
Proof. exact inv_new. Qed.
Print Assumptions C13_new_is_coherent.

(* non-vacuity: a concrete history meets the guard and removes the last element twice *)
Example C13_guard_satisfiable :
  ops_ok [] [OPush ("a", 1%N); OPush ("b", 2%N); OSwapRemove "b"; OSwapRemoveIdx 0; OPush ("c", 3%N);
             ORename 0 "a"; OExtend [("b", 4%N); ("d", 5%N)]; OSortBy CNameDesc; OTruncate 2; OPop].
Proof. simpl. repeat split; try tauto; try (intros [H|H]; try discriminate; tauto);
       repeat constructor; simpl; intuition discriminate. Qed.

(* "names that were removed or renamed away are not [reachable]", per way of leaving the list:
   afterwards get = None, contains_key = false, index = None for that name *)
Theorem C13_removed_by_name_is_gone :
  forall l k l' o, Inv l -> step l (OSwapRemove k) = Ok (l', o) -> gone l' k.
Proof. exact removed_by_name_gone. Qed.
Print Assumptions C13_removed_by_name_is_gone.

Theorem C13_removed_by_index_is_gone :
  forall l i it l' o, Inv l -> nth_error (items l) i = Some it ->
  step l (OSwapRemoveIdx i) = Ok (l', o) -> o = OItem (Some it) /\ gone l' (iname it).
Proof. exact removed_by_index_gone. Qed.
Print Assumptions C13_removed_by_index_is_gone.

Theorem C13_popped_is_gone :
  forall l l' it, Inv l -> step l OPop = Ok (l', OItem (Some it)) -> gone l' (iname it).
Proof. exact popped_gone. Qed.
Print Assumptions C13_popped_is_gone.

(* rename to a fresh name: the old name is gone, the new name designates the same position and payload *)
Theorem C13_renamed_away_is_gone :
  forall l i it new l' o, Inv l -> nth_error (items l) i = Some it ->
  ~ In new (names (items l)) -> step l (ORename i new) = Ok (l', o) ->
  gone l' (iname it) /\ il_index l' new = Some i /\ il_get l' new = Ok (Some (new, snd it)).
Proof. exact renamed_away_gone. Qed.
Print Assumptions C13_renamed_away_is_gone.

(* non-vacuity: the last element removed by name from a two-element list, evaluated *)
Example C13_gone_evaluated :
  match run il_new [OPush ("a", 1%N); OPush ("b", 2%N); OSwapRemove "b"; ORename 0 "c"] with
  | Ok l => (il_index l "a", il_index l "b", il_index l "c", il_len l) = (None, None, Some 0, 1)
  | _ => False
  end.
Proof. vm_compute. reflexivity. Qed.

(* retain / truncate: an element the predicate rejects, or one at a position >= len, is gone *)
Theorem C13_retained_out_is_gone :
  forall l p it, Inv l -> In it (items l) -> eval_pred p it = false -> gone (il_retain l p) (iname it).
Proof. exact retained_out_gone. Qed.
Print Assumptions C13_retained_out_is_gone.

Theorem C13_truncated_off_is_gone :
  forall l n i it, Inv l -> nth_error (items l) i = Some it -> n <= i -> gone (il_truncate l n) (iname it).
Proof. exact truncated_off_gone. Qed.
Print Assumptions C13_truncated_off_is_gone.

(* the full observational statement: after EVERY history that keeps names unique, iteration, length,
   lookup by name, index and key membership are those of the plain vector the history builds *)
Theorem C13_history_every_observer_is_the_vector :
  forall ops l, Inv l -> ops_ok (items l) ops ->
  exists l', run l ops = Ok l' /\
    il_iter l' = spec_run (items l) ops /\
    il_len l' = length (spec_run (items l) ops) /\
    forall k, il_get l' k = Ok (spec_get (spec_run (items l) ops) k) /\
              il_index l' k = find_idx k (spec_run (items l) ops) /\
              il_contains_key l' k = match find_idx k (spec_run (items l) ops) with Some _ => true | None => false end.
Proof. exact history_observers. Qed.
Print Assumptions C13_history_every_observer_is_the_vector.
