(** C01 — Save/reload stability.  The lexeme-level inverses (strings, integers), the closed obligation that
    every shipped stringify / PartialEq is the writer-template instance of its grammar entry, and totality of
    the scanner.  The whole-document statement  load (write M) = M  for the generic parser / writer pair
    is proved in two halves for every grammar and every element without comments, include directives, A2ML and IF_DATA:
    the parser rebuilds a value from the tokens the writer emits for it ([C01_parser_rebuilds_what_the_writer_emits]),
    and the tokenizer cuts the text written by the writer into exactly these tokens
    ([C01_written_text_is_cut_into_its_tokens]); [C01_block_round_trip_through_text] composes them.  The conditions are
    executable and are evaluated, together with both conclusions, on every block of every generated document
    (Run/RunRT.v). *)
From Coq Require Import Ascii String List Bool NArith ZArith.
From A2L Require Import Base.Res Text.Escape Text.IntText Lex.Tokenizer Gram.Spec Gram.WriterTable
     Gen.SpecShipped Gen.WriterShipped
     Gram.PState Gram.Parser Gram.Writer Gram.TokWriter Run.RunRT
     Proofs.EscapeProofs Proofs.IntTextProofs Proofs.TokenizerProofs Proofs.GrammarObligations Proofs.CursorProofs Proofs.RoundTripProofs Proofs.RoundTripOrderProofs Proofs.LexUnitsProofs Proofs.RoundTripTextProofs.
Import ListNotations.

(* add_quoted_string / unescape_string are inverse on every byte string *)
Theorem C01_unescape_escape : forall s, unescape (escape s) = s.
Proof. exact unescape_escape. Qed.
Print Assumptions C01_unescape_escape.

(* the tokenizer ends a written string exactly at its closing quote, whatever follows
   (unless the next byte is itself a quote, which the writer never produces: it writes whitespace first) *)
Theorem C01_string_token_exact : forall s rest, not_quote_first rest ->
  find_string_end (escape s ++ dq :: rest) = Some (length (escape s) + 1).
Proof. exact string_token_exact. Qed.
Print Assumptions C01_string_token_exact.

(* every integer of every field type is read back with the same value and the same notation flag *)
Theorem C01_int_text_roundtrip : forall t v hex, in_range t v = true ->
  get_integer_text t (add_integer_text t v hex) = Some (v, hex).
Proof. exact int_text_roundtrip. Qed.
Print Assumptions C01_int_text_roundtrip.

(* closed obligation on the regenerated tables: each of the 165 stringify functions writes every parsed field
   exactly once, in parse order, with the function of its type and its own location slot, pushes every tagged
   item with its own tag and block flag, adds comments iff the parser stores them; each PartialEq compares
   exactly the data fields *)
Theorem C01_shipped_writer_is_template_instance : writer_consistent spec_shipped writer_shipped = true.
Proof. exact writer_is_consistent. Qed.
Print Assumptions C01_shipped_writer_is_template_instance.

(* the scanner is total: any byte string yields tokens or a tokenizer error *)
Theorem C01_tokenizer_total : forall fid text,
  (exists toks, tokenize_core fid text = TOk toks) \/ (exists e, tokenize_core fid text = TErr e).
Proof. exact tokenize_core_total. Qed.
Print Assumptions C01_tokenizer_total.

(* The syntactic half of  load (write M) = M, for every grammar [S], every element type [td] and every value [v] of it
   that meets the executable condition [confb] (no comments, include directives, A2ML or IF_DATA inside; numbers in the
   range of their field; sequences that end where the grammar can tell).  [s] is any parser state in non-strict mode
   over a token list of one file without comment tokens whose lines do not decrease ([Inv]); [ts] are its next tokens,
   and their types and texts are those the writer emits for [v] ([wtoks], with the closing /end TAG of a block).  Then
   the parser returns a value that is [v] up to layout, with the children of every tagged group in the order in which
   they were written ([reorder]), and the cursor stands exactly behind [ts] ([adv]); nothing else of the state but the
   log, the last position and the id counter has changed. *)
Theorem C01_parser_rebuilds_what_the_writer_emits : forall S posrs ftab ifuel f F td v c so s ts rest nxt,
  (f < F)%nat -> c_fileid c = O -> Inv s -> ps_ftab s = ftab ->
  confb S posrs ftab f td v nxt = true -> ps_after s = ts ++ rest ->
  map shape_of ts = wtoks S posrs ftab f v ++ closing (is_blockb td) (c_element c) ->
  (is_blockb td = false -> hd_shape rest = nxt) ->
  exists v' s', parse_ty F S ifuel td c so s = (ROk v', s') /\ adv ts s s' /\ erase v' = erase (reorder S posrs f v).
Proof. exact frame. Qed.
Print Assumptions C01_parser_rebuilds_what_the_writer_emits.

(* ... and when the lists of the value are stored in the order in which the writer emits them ([in_writer_order]: every
   list sorted for the writer's comparison - a loaded file, a sorted file, new elements appended behind placed ones -, at
   most one child where the grammar allows one, at most one position-restricted child per group), the value that comes
   back is the value that was written, up to layout.  Uses: the writer's comparison is a total preorder and its sort is
   stable, so the written order of a group restricted to one kind is the stored list of that kind. *)
Theorem C01_parser_rebuilds_the_written_value : forall S posrs ftab ifuel f F td v c so s ts rest nxt,
  (f < F)%nat -> c_fileid c = O -> Inv s -> ps_ftab s = ftab ->
  confb S posrs ftab f td v nxt = true -> in_writer_order S posrs f v -> ps_after s = ts ++ rest ->
  map shape_of ts = wtoks S posrs ftab f v ++ closing (is_blockb td) (c_element c) ->
  (is_blockb td = false -> hd_shape rest = nxt) ->
  exists v' s', parse_ty F S ifuel td c so s = (ROk v', s') /\ adv ts s s' /\ erase v' = erase v.
Proof. exact frame_in_order. Qed.
Print Assumptions C01_parser_rebuilds_the_written_value.

(* non-vacuity of [in_writer_order]: a group with one repeatable kind holding two elements with uids 1 and 2 *)
Example C01_group_in_order_example :
  let ti := mkTitem "MEASUREMENT" "Measurement" "measurement" true true (Some true) false None None in
  let k u := VNode "Measurement" (mkLay u 1 1 1 None) [] [] [] in
  group_in_order [] [] [ti] [[k 1%N; k 2%N]].
Proof.
  cbv zeta. split; [reflexivity|]. split; [vm_compute; repeat constructor|].
  intros i ti ks Hi Hk. destruct i as [|i]; [|destruct i; discriminate]. cbn in Hi, Hk. inversion Hi; inversion Hk; subst.
  split; [|discriminate]. repeat constructor.
Qed.

(* The lexical half: the text that the writer produces for such an element, cut by the tokenizer, gives exactly the tokens
   [wtoks] - provided every one of these texts is a well-formed token of its type ([token_text]: identifiers start with a
   letter or underscore and consist of identifier characters, numbers are number characters, strings are quoted and
   escaped).  Proof: the written text is white space and token texts in alternation (for every element that meets
   [confb]; the order of a group depends on the keys only), and on such text the scanner returns these tokens. *)
Theorem C01_written_text_is_cut_into_its_tokens : forall S posrs ftab names f td v nxt indent,
  confb S posrs ftab f td v nxt = true -> Forall token_text (wtoks S posrs ftab f v) ->
  exists toks, tokenize_core 0 (write_node S posrs ftab names f v indent) = TOk toks /\ map shape_of toks = wtoks S posrs ftab f v.
Proof. exact written_text_tokens. Qed.
Print Assumptions C01_written_text_is_cut_into_its_tokens.

(* part of the condition on the token texts always holds: every integer text the writer produces, decimal or hexadecimal,
   for every value of every integer field type, is a well-formed number token *)
Theorem C01_integer_texts_are_number_tokens : forall t z hex, token_text (TNumber, add_integer_text t z hex).
Proof. exact integer_text_is_number_token. Qed.
Print Assumptions C01_integer_texts_are_number_tokens.

(* Both halves together, through text: write a block, tokenize the text (with its /end TAG), parse the tokens.  The
   parser returns the block up to layout, with every group in written order, and consumes all tokens. *)
Theorem C01_block_round_trip_through_text : forall S posrs ftab names ifuel f F td v tag indent so line,
  (f < F)%nat -> is_blockb td = true ->
  confb S posrs ftab f td v None = true -> Forall token_text (wtoks S posrs ftab f v) -> ident_text tag ->
  exists toks v' s',
    tokenize_core 0 (write_node S posrs ftab names f v indent ++ bytes_of " /end " ++ tag) = TOk toks /\
    parse_ty F S ifuel td (mkCtx tag O line) so (init_state toks false 1 ftab) = (ROk v', s') /\
    ps_after s' = [] /\ erase v' = erase (reorder S posrs f v).
Proof. exact block_roundtrip. Qed.
Print Assumptions C01_block_round_trip_through_text.

(* non-vacuity on the shipped grammar: a document with PROJECT, MODULE, MEASUREMENT (MATRIX_DIM sequence, ANNOTATION with
   a string sequence, ECU_ADDRESS in hex) and COMPU_VTAB (sequence of structs).  All six blocks meet [confb]; for each of
   them every written token text is a well-formed token ([token_textb]), the tokenizer cuts the written text into exactly
   [wtoks] and the conclusion of the theorem evaluates to true *)
Definition c01_tab : list fentry :=
  let b := list_ascii_of_string in
  [mkFe (b "0"%string) true 0%N (b "0"%string) (b "0e0"%string) true 0%N (b "0"%string) (b "0e0"%string);
   mkFe (b "1"%string) true 0x3FF0000000000000%N (b "1"%string) (b "1e0"%string) true 0x3FF0000000000000%N (b "1"%string) (b "1e0"%string)].
Definition c01_text : string :=
  "ASAP2_VERSION 1 71 /begin PROJECT p """" /begin MODULE m """" /begin MEASUREMENT a ""long"" UBYTE cm 0 0 0 1 MATRIX_DIM 2 3 /begin ANNOTATION ANNOTATION_LABEL ""x"" /begin ANNOTATION_TEXT ""l1"" ""l2"" /end ANNOTATION_TEXT /end ANNOTATION ECU_ADDRESS 0x10 /end MEASUREMENT /begin COMPU_VTAB v """" TAB_VERB 2 0 ""zero"" 1 ""one"" DEFAULT_VALUE ""d"" /end COMPU_VTAB /end MODULE /end PROJECT".
Example C01_roundtrip_conditions_are_met :
  match tokenize_core 0 (list_ascii_of_string c01_text) with
  | TOk toks =>
      match parse_file spec_shipped (init_state toks false 1 c01_tab) with
      | (ROk v, _) =>
          let fuel := S (S (length toks)) in
          flat_map (fun n => match rt_block c01_tab fuel n with Some r => [(node_name n, r)] | None => [] end) (subnodes fuel v)
      | _ => []
      end
  | _ => []
  end = [("Project", (true, true, true)); ("Module", (true, true, true)); ("CompuVtab", (true, true, true)); ("Measurement", (true, true, true));
         ("Annotation", (true, true, true)); ("AnnotationText", (true, true, true))]%string.
Proof. vm_compute. reflexivity. Qed.

(* non-vacuity / examples by computation: a string with every escape, numbers at the limits *)
Example C01_examples :
  unescape (escape (list_ascii_of_string "a""b\c'd")) = list_ascii_of_string "a""b\c'd" /\
  get_integer_text I8 (add_integer_text I8 (-128) true) = Some ((-128)%Z, true) /\
  get_integer_text U64 (add_integer_text U64 18446744073709551615 false) = Some (18446744073709551615%Z, false).
Proof. repeat split; vm_compute; reflexivity. Qed.

(* ---------- a recorded finding, as the model shows it ---------- *)
(* known finding uninterpreted-ifdata-integral-float: in IF_DATA that no definition describes, a float with an integral value is kept as
   a float, written with Rust's shortest notation ("1") and read back as an integer - the models before and after the save differ
   once (the text is stable from then on).  The float table entry is the one the implementation produces for "1.0". *)
Definition demo_integral_float_table : list fentry :=
  [mkFe (bytes_of "1.0") true 0x3FF0000000000000 (bytes_of "1") (bytes_of "1e0") true 0x3FF0000000000000 (bytes_of "1") (bytes_of "1e0")].
Definition demo_uninterpreted (text : bytes) : option (gifd * bytes) :=
  match tokenize_core 0 text with
  | TOk toks =>
      match unknown_ifdata_start 20 (mkCtx (bytes_of "IF_DATA") O 1) (init_state toks false 1 demo_integral_float_table) with
      | (ROk g, _) => Some (g, gifd_write demo_integral_float_table [] 6 g 2)
      | _ => None
      end
  | _ => None
  end.
Example C01_known_integral_float_witness :
  match demo_uninterpreted (bytes_of "V 1.0 /end IF_DATA") with
  | Some (GBlock _ _ [GTaggedUnion [(_, [GTI _ _ _ _ _ _ (GStruct _ _ [first]) _])]], written) =>
      match demo_uninterpreted (written ++ bytes_of " /end IF_DATA") with
      | Some (GBlock _ _ [GTaggedUnion [(_, [GTI _ _ _ _ _ _ (GStruct _ _ [second]) _])]], written2) =>
          Some (first, second, bytes_eqb written written2)
      | _ => None
      end
  | _ => None
  end = Some (GFloat 0 0x3FF0000000000000, GInt "Long" 0 1 false, true).
Proof. vm_compute. reflexivity. Qed.
