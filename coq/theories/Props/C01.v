(** C01 — Save/reload stability.  The lexeme-level inverses (strings, integers), the closed obligation that
    every shipped stringify / PartialEq is the writer-template instance of its grammar entry, and totality of
    the scanner.  The whole-document statement  load (write M) = M  for the generic parser / writer pair is
    tied to the code by the correspondence run and evaluated by the oracle; its general proof is the staged
    frame lemma (see DESIGN.md, C01.6): named here as the partial theorem it currently is. *)
From Coq Require Import Ascii String List Bool NArith ZArith.
From A2L Require Import Base.Res Text.Escape Text.IntText Lex.Tokenizer Gram.Spec Gram.WriterTable
     Gen.SpecShipped Gen.WriterShipped
     Proofs.EscapeProofs Proofs.IntTextProofs Proofs.TokenizerProofs Proofs.GrammarObligations.
Import ListNotations.

(* add_quoted_string / unescape_string are inverse on every byte string *)
Theorem C01_unescape_escape : forall s, unescape (escape s) = s.
Proof. exact unescape_escape. Qed.
Print Assumptions C01_unescape_escape.

(* the tokenizer ends a written string exactly at its closing quote, whatever follows
   (unless the next byte is itself a quote, which the writer never produces: it writes whitespace first) *)
Theorem C01_string_token_exact : forall s rest, not_quote_first rest ->
  find_string_end (escape s ++ dq :: rest) = Some (length (escape s) + 1).
Proof. exact string_token_exact. Qed.
Print Assumptions C01_string_token_exact.

(* every integer of every field type is read back with the same value and the same notation flag *)
Theorem C01_int_text_roundtrip : forall t v hex, in_range t v = true ->
  get_integer_text t (add_integer_text t v hex) = Some (v, hex).
Proof. exact int_text_roundtrip. Qed.
Print Assumptions C01_int_text_roundtrip.

(* closed obligation on the regenerated tables: each of the 165 stringify functions writes every parsed field
   exactly once, in parse order, with the function of its type and its own location slot, pushes every tagged
   item with its own tag and block flag, adds comments iff the parser stores them; each PartialEq compares
   exactly the data fields *)
Theorem C01_shipped_writer_is_template_instance : writer_consistent spec_shipped writer_shipped = true.
Proof. exact writer_is_consistent. Qed.
Print Assumptions C01_shipped_writer_is_template_instance.

(* the scanner is total: any byte string yields tokens or a tokenizer error *)
Theorem C01_tokenizer_total : forall fid text,
  (exists toks, tokenize_core fid text = TOk toks) \/ (exists e, tokenize_core fid text = TErr e).
Proof. exact tokenize_core_total. Qed.
Print Assumptions C01_tokenizer_total.

(* non-vacuity / examples by computation: a string with every escape, numbers at the limits *)
Example C01_examples :
  unescape (escape (list_ascii_of_string "a""b\c'd")) = list_ascii_of_string "a""b\c'd" /\
  get_integer_text I8 (add_integer_text I8 (-128) true) = Some ((-128)%Z, true) /\
  get_integer_text U64 (add_integer_text U64 18446744073709551615 false) = Some (18446744073709551615%Z, false).
Proof. repeat split; vm_compute; reflexivity. Qed.
