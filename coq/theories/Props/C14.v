(** C14 — sort() is a pure reordering into the canonical order. *)
From Coq Require Import String List ZArith Sorting.Sorted Permutation.
From A2L Require Import Base.Res Base.StableSort Lib.Sort Proofs.SortProofs Proofs.SortModuleProofs.
Import ListNotations.
Local Open Scope Z_scope.

(* each list: same elements with untouched content (tag, name, payload), names ascending,
   uids consecutive from the running counter, which advances by the list length; offsets normalised *)
Theorem C14_list_sorted_permutation : forall l s,
  let r := sort_objectlist_full l s in
  Permutation (map content (fst r)) (map content l) /\
  Sorted (leP name_leb) (fst r) /\
  snd r = s + Z.of_nat (length l) /\
  (forall i e, nth_error (fst r) i = Some e -> e_uid e = s + Z.of_nat i /\ e_so e = 2 /\ e_eo e = 1).
Proof. exact sort_full_spec. Qed.
Print Assumptions C14_list_sorted_permutation.

(* sorting a second time changes nothing *)
Theorem C14_list_sort_idempotent : forall l s,
  sort_objectlist_full (fst (sort_objectlist_full l s)) s = sort_objectlist_full l s.
Proof. exact sort_full_idempotent. Qed.
Print Assumptions C14_list_sort_idempotent.

(* the stable sort used by the lists and by the writer: permutation, sorted, fixed point on sorted input *)
Theorem C14_stable_sort_permutation : forall (le : el -> el -> bool) l, Permutation (ssort le l) l.
Proof. intros. apply ssort_perm. Qed.
Print Assumptions C14_stable_sort_permutation.

Theorem C14_writer_order_sorted : forall m, Sorted (leP le_writer) (writer_order m).
Proof. intros m. unfold writer_order. apply ssort_sorted. exact le_writer_total. Qed.
Print Assumptions C14_writer_order_sorted.

Theorem C14_writer_order_permutation : forall m, Permutation (writer_order m) (tgroup m).
Proof. intros m. unfold writer_order. apply ssort_perm. Qed.
Print Assumptions C14_writer_order_permutation.

(* the whole MODULE: after sort() the writer prints A2ML, MOD_COMMON, MOD_PAR, the IF_DATA blocks, then the twenty
   named kinds in the canonical kind order each sorted by name, then USER_RIGHTS by name, then VARIANT_CODING - every
   element with untouched content - and the uids it orders by are strictly increasing (so no tie is left to the
   line number or the tag) *)
Theorem C14_module_written_in_canonical_order : forall m, length (m_lists m) = 20%nat ->
  StronglySorted uid_lt (writer_order (sort_module canonical_order m)) /\
  map content (writer_order (sort_module canonical_order m)) = map content (canonical_listing canonical_order m).
Proof. exact sort_module_writer_order. Qed.
Print Assumptions C14_module_written_in_canonical_order.

(* every one of the twenty lists keeps exactly its elements *)
Theorem C14_module_lists_keep_their_elements : forall m k, length (m_lists m) = 20%nat ->
  Permutation (map content (nth k (m_lists (sort_module canonical_order m)) [])) (map content (nth k (m_lists m) [])).
Proof. exact sort_module_lists_keep. Qed.
Print Assumptions C14_module_lists_keep_their_elements.

(* sorting the whole MODULE a second time changes nothing *)
Theorem C14_module_sort_idempotent : forall m, length (m_lists m) = 20%nat ->
  sort_module canonical_order (sort_module canonical_order m) = sort_module canonical_order m.
Proof. exact sort_module_idempotent. Qed.
Print Assumptions C14_module_sort_idempotent.

(* closed check of the whole-module statement on a concrete module that populates several kinds:
   after sort_module the writer lists the elements exactly in canonical kind order, alphabetically,
   and a second sort_module is the identity *)
Definition c14_sample : module :=
  mkMod None (Some (mkEl "MOD_COMMON" "" 0%N 40 1 1 1)) None None
    [mkEl "IF_DATA" "" 0%N 7 3 1 1] [mkEl "USER_RIGHTS" "u2" 0%N 0 0 1 1; mkEl "USER_RIGHTS" "u1" 0%N 3 9 1 1] [5; 9]
    [ [mkEl "AXIS_PTS" "x" 0%N 30 5 1 1]; []; [mkEl "CHARACTERISTIC" "c2" 0%N 2 7 1 1; mkEl "CHARACTERISTIC" "c1" 0%N 0 0 2 1];
      []; []; []; []; []; []; []; []; [mkEl "MEASUREMENT" "m" 0%N 1 2 1 1]; []; []; []; []; []; []; []; [mkEl "UNIT" "k" 0%N 9 4 1 1] ].
Example C14_sample_canonical :
  map (fun e => (e_tag e, e_name e)) (writer_order (sort_module canonical_order c14_sample)) =
  [("MOD_COMMON", ""); ("IF_DATA", ""); ("CHARACTERISTIC", "c1"); ("CHARACTERISTIC", "c2"); ("MEASUREMENT", "m");
   ("AXIS_PTS", "x"); ("UNIT", "k"); ("USER_RIGHTS", "u1"); ("USER_RIGHTS", "u2")]%string
  /\ sort_module canonical_order (sort_module canonical_order c14_sample) = sort_module canonical_order c14_sample.
Proof. split; vm_compute; reflexivity. Qed.
