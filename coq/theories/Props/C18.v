(** C18 — IF_DATA is interpreted as the applicable A2ML definition says. *)
From Coq Require Import Ascii String List Bool NArith ZArith.
From A2L Require Import Text.Escape Lex.Tokenizer Gram.Spec A2ml.Types Gram.PState Gram.Parser Proofs.IfdataProofs.
Import ListNotations.

Theorem C18_interpreted_content_is_a_block : forall data inc line, exists items, make_block data inc line = GBlock inc line items.
Proof. exact make_block_is_block. Qed.
Print Assumptions C18_interpreted_content_is_a_block.
