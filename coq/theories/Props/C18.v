(** C18 — IF_DATA is interpreted as the applicable A2ML definition says.
    Statements about the model of ifdata.rs inside the parser model (Gram/Parser.v).  Proved: how the validity flag is
    decided (sound in both directions), that an interpretation must account for the whole content, and that the scalar
    readers return exactly the value - and for integers the notation - that the writer's text carries.  The
    composition over arbitrary nested definitions (structs, sequences, tagged members) is evaluated against the
    implementation and against an independent reference interpreter, not proved: C18 is a partial proof. *)
From Coq Require Import Ascii String List Bool NArith ZArith.
From A2L Require Import Text.Escape Text.IntText Lex.Tokenizer Gram.Spec A2ml.Types Gram.PState Gram.Parser Lib.IfdataCleanup
     Gen.SpecShipped Proofs.IfdataProofs Proofs.IfdataCleanupProofs.
Import ListNotations.

(* valid = true only when a specification (built-in first, then the A2ML block of the file) accepted the content, and the
   items are the interpretation by that specification *)
Theorem C18_valid_means_a_definition_accepted : forall specs fuel c s og s',
  parse_ifdata specs fuel c s = (ROk (og, true), s') ->
  exists g sp s0, og = Some g /\ In sp specs /\ parse_ifdata_from_spec sp c s0 = (ROk (Some g), s').
Proof. exact parse_ifdata_valid_sound. Qed.
Print Assumptions C18_valid_means_a_definition_accepted.

(* valid = false with data means: no specification accepted, and the data is what the uninterpreted fallback kept *)
Theorem C18_invalid_means_uninterpreted_fallback : forall specs fuel c s g s',
  parse_ifdata specs fuel c s = (ROk (Some g, false), s') ->
  exists s0 s1, first_spec specs c s0 = (ROk None, s1) /\ unknown_ifdata_start fuel c s1 = (ROk g, s').
Proof. exact parse_ifdata_invalid_is_fallback. Qed.
Print Assumptions C18_invalid_means_uninterpreted_fallback.

(* the specifications are tried in order: the built-in one wins over the one in the file *)
Theorem C18_specifications_in_order : forall specs c s g s',
  first_spec specs c s = (ROk (Some g), s') ->
  exists sp s0, In sp specs /\ parse_ifdata_from_spec sp c s0 = (ROk (Some g), s').
Proof. exact first_spec_some. Qed.
Print Assumptions C18_specifications_in_order.

(* an interpretation is accepted only if it accounts for the whole content of the block *)
Theorem C18_interpretation_consumes_everything : forall sp c s g s',
  parse_ifdata_from_spec sp c s = (ROk (Some g), s') ->
  exists t, peek_token s' = (ROk (Some t), s') /\ tk_type t = TEnd.
Proof. exact from_spec_consumes_everything. Qed.
Print Assumptions C18_interpretation_consumes_everything.
Theorem C18_interpretation_is_a_block : forall sp c s g s',
  parse_ifdata_from_spec sp c s = (ROk (Some g), s') -> exists inc items, g = GBlock inc (c_line c) items.
Proof. exact from_spec_yields_block. Qed.
Print Assumptions C18_interpretation_is_a_block.

(* integers: value and notation survive, for char/int/long/int64 and their unsigned forms *)
Theorem C18_integer_value_and_notation_survive : forall variant t c tok s v hex,
  match ps_after s with x :: _ => x = tok | [] => False end ->
  tk_type tok = TNumber -> tk_text tok = add_integer_text t v hex -> in_range t v = true ->
  forall g s', int_item variant t c s = (ROk g, s') -> exists off, g = GInt variant off v hex.
Proof. exact int_item_reads_written_value. Qed.
Print Assumptions C18_integer_value_and_notation_survive.

(* enum items: only members of the enumeration are accepted *)
Theorem C18_enum_accepts_only_members : forall items c s g s',
  item_step (fun _ _ => ret GNone) (TEnum items) c s = (ROk g, s') -> exists off e, g = GEnumItem off e /\ enum_has items e = true.
Proof. exact enum_item_accepts_only_members. Qed.
Print Assumptions C18_enum_accepts_only_members.

(* strings: every byte sequence survives escaping by the writer and unescaping by the reader *)
Theorem C18_string_value_survives : forall str, unescape (strip_quotes (dq :: escape str ++ [dq])) = str.
Proof. exact string_value_survives. Qed.
Print Assumptions C18_string_value_survives.

(* ifdata_cleanup(): afterwards no block with ifdata_valid = false is left anywhere in the file; what is dropped are such
   blocks and nothing else; a file without them is unchanged; and the grammar allows IF_DATA only under the eleven
   element types that remove_unknown_ifdata visits (closed obligation on the regenerated grammar) *)
Theorem C18_cleanup_removes_every_invalid_block : forall fuel ty lay fields kids cms,
  depth_le fuel (VNode ty lay fields kids cms) -> ~ invalid_in (cleanup_value fuel (VNode ty lay fields kids cms)).
Proof. exact cleanup_removes_every_invalid_block. Qed.
Print Assumptions C18_cleanup_removes_every_invalid_block.
Theorem C18_cleanup_drops_only_invalid_blocks : forall g k, In k g -> ~ In k (filter keep_ifdata g) ->
  exists lay items, k = VIfData lay items false.
Proof. exact cleanup_drops_only_invalid_blocks. Qed.
Print Assumptions C18_cleanup_drops_only_invalid_blocks.
Theorem C18_cleanup_without_invalid_blocks_is_identity : forall fuel v, ~ invalid_in v -> cleanup_value fuel v = v.
Proof. exact cleanup_without_invalid_blocks_is_identity. Qed.
Print Assumptions C18_cleanup_without_invalid_blocks_is_identity.
Example C18_places_of_if_data_in_the_grammar :
  ifdata_parents spec_shipped =
  ["AxisPts"; "Blob"; "Characteristic"; "Frame"; "Function"; "Group"; "Instance"; "Measurement"; "MemoryLayout";
   "MemorySegment"; "Module"]%string.
Proof. exact ifdata_parents_of_the_shipped_grammar. Qed.

(* ---------- values survive: scalars, structs and arrays in any nesting ---------- *)
From A2L Require Import Gram.Writer Gram.TokWriter Proofs.CursorProofs Proofs.ProvenanceProofs Proofs.IfdataRoundTripProofs.

(* IF_DATA content that conforms to a definition made of integers, floats, char arrays (strings), enums, structs and arrays:
   read from the tokens the writer prints for it (GenericIfData::write, token by token), the typed parser returns the same
   value - every integer with value and notation, every float, string and enum item - and consumes exactly these tokens.
   ([er_gifd] erases line offsets and include attribution, nothing else.) *)
Theorem C18_conforming_scalars_structs_and_arrays_are_read_back : forall ftab c f ty g, c_fileid c = O ->
  (ty_depth ty <= f)%nat -> conf ftab ty g ->
  forall s ts rest, Inv s -> ps_ftab s = ftab -> ps_after s = ts ++ rest -> map shape_of ts = gtoks ftab g ->
  exists g' s', parse_ifdata_item f ty c s = (ROk g', s') /\ adv ts s s' /\ er_gifd g' = er_gifd g.
Proof. intros ftab c f ty g Hc Hd Hconf. exact (conforming_content_is_read_back ftab c Hc f ty g Hd Hconf). Qed.
Print Assumptions C18_conforming_scalars_structs_and_arrays_are_read_back.

(* the premises are met: a struct with a hex integer, a string, an array of two bytes and an enum item *)
Example C18_conformance_example :
  conf [] (TStruct [TUInt; TArray TChar 8; TArray TUChar 2; TEnum [(bytes_of "A", None); (bytes_of "B", Some 1%Z)]])
       (GStruct None 0 [GInt "UInt" 0 16 true; GString 0 (bytes_of "ab"); GArray [GInt "UChar" 0 1 false; GInt "UChar" 0 255 true]; GEnumItem 0 (bytes_of "B")]).
Proof.
  apply conf_struct. constructor; [apply (conf_int [] TUInt "UInt" U16); reflexivity|].
  constructor; [apply conf_string|].
  constructor; [apply conf_array; [discriminate | reflexivity|]; constructor; [apply (conf_int [] TUChar "UChar" U8); reflexivity|];
                constructor; [apply (conf_int [] TUChar "UChar" U8); reflexivity | constructor]|].
  constructor; [apply conf_enum; reflexivity | constructor].
Qed.

(* [gtoks] is what the byte-level writer prints: the text that GenericIfData::write (Gram/Writer.v gifd_write, tied to the
   implementation by the correspondence runs) produces for the example value is cut by the scanner into exactly these tokens *)
Definition demo_ifd_value : gifd :=
  GStruct None 0 [GInt "UInt" 0 16 true; GString 1 (bytes_of "ab"); GArray [GInt "UChar" 0 1 false; GInt "UChar" 2 255 true]; GEnumItem 0 (bytes_of "B")].
Example C18_written_text_has_these_tokens :
  match tokenize_core 0 (gifd_write [] [] 5 demo_ifd_value 2) with TOk t => map shape_of t | _ => [] end = gtoks [] demo_ifd_value.
Proof. vm_compute. reflexivity. Qed.

(* ---------- values survive: sequences, tagged structs and tagged unions as well ---------- *)
From A2L Require Proofs.IfdataFollowProofs.
Module F := A2L.Proofs.IfdataFollowProofs.

(* The members whose end depends on the token that follows.  [F.conf ftab ty g k]: the value g conforms to the definition ty
   and may be followed by tokens of the types and texts k - a sequence by something its item type cannot start with
   ([F.fails_on]), a tagged struct / union by something that is not one of its tags in the declared form ([F.ts_stops]); the items
   of a tagged struct are taken in the order of the group writer ([F.witems], Writer::add_group) and must regroup to the value.
   Then the typed parser, started on the tokens the writer prints for g ([F.ftoks]) followed by such tokens, returns the value -
   every scalar, every item of every sequence, every tagged item under its tag, keyword or block - and stops exactly behind them.
   ([F.ev] erases line offsets, lines, include attribution and the ids handed out while parsing, nothing else.) *)
Theorem C18_conforming_content_with_sequences_and_tagged_items_is_read_back : forall ftab f ty g k c, c_fileid c = O ->
  (ty_depth ty <= f)%nat -> F.conf ftab ty g k ->
  forall s ts rest, Inv s -> ps_ftab s = ftab -> ps_after s = ts ++ rest -> map shape_of ts = F.ftoks ftab g -> map shape_of rest = k ->
  exists g' s', parse_ifdata_item f ty c s = (ROk g', s') /\ adv ts s s' /\ F.ev g' = F.ev g.
Proof. intros ftab f ty g k c Hc Hd Hconf. exact (F.conforming_content_is_read_back_with_follow ftab f ty g k c Hc Hd Hconf). Qed.
Print Assumptions C18_conforming_content_with_sequences_and_tagged_items_is_read_back.

(* the end of a sequence: in front of a token its item type cannot start with, reading one more item is an error (which the loop
   of parse_ifdata_item turns into the end of the sequence, the cursor put back) *)
Theorem C18_what_cannot_start_an_item_is_an_error : forall f ty c k, c_fileid c = O -> (ty_depth ty <= f)%nat -> F.fails_on ty k = true ->
  forall s rest, Inv s -> ps_after s = rest -> map shape_of rest = k ->
  exists d s1 ts', parse_ifdata_item f ty c s = (RErr d, s1) /\ adv ts' s s1.
Proof. intros f ty c k Hc Hd Hf. exact (F.what_cannot_start_a_value_is_an_error f ty c k Hc Hd Hf). Qed.
Print Assumptions C18_what_cannot_start_an_item_is_an_error.

(* the whole block: content that conforms to the first applicable definition and is followed by the /end of the block is
   interpreted - the block is marked valid (the [true]) and carries exactly this value as its items *)
Theorem C18_content_conforming_to_the_first_definition_is_valid : forall ftab sp specs fuel c g k e, c_fileid c = O ->
  F.conf ftab sp g ((TEnd, e) :: k) ->
  forall s ts rest, Inv s -> ps_ftab s = ftab -> ps_after s = ts ++ rest -> map shape_of ts = F.ftoks ftab g -> map shape_of rest = (TEnd, e) :: k ->
  exists g' s', parse_ifdata (sp :: specs) fuel c s = (ROk (Some (make_block g' None (c_line c)), true), s') /\ adv ts s s' /\ F.ev g' = F.ev g.
Proof. intros ftab sp specs fuel c g k e Hc Hconf. exact (F.conforming_ifdata_is_valid ftab sp specs fuel c g k e Hc Hconf). Qed.
Print Assumptions C18_content_conforming_to_the_first_definition_is_valid.

(* the premises are met: a struct of an integer and a tagged struct with a keyword item and two blocks of a repeatable tag, each
   of a byte and a sequence (one of them empty), followed by the /end of the IF_DATA block *)
Definition demo_spec2 : a2mlty :=
  TStruct [TUInt; TTaggedStruct [Tagged (bytes_of "A") false false TULong;
                                 Tagged (bytes_of "BLK") true true (TStruct [TUChar; TSequence TUInt])]].
Definition demo_tagged2 : list (bytes * list gtitem) :=
  [(bytes_of "BLK", [GTI None 3 2 1 1 (bytes_of "BLK") (GBlock None 3 [GInt "UChar" 1 9 false; GSequence [GInt "UInt" 1 1 false; GInt "UInt" 1 2 true]]) true;
                     GTI None 5 3 1 1 (bytes_of "BLK") (GBlock None 5 [GInt "UChar" 1 8 false; GSequence []]) true]);
   (bytes_of "A", [GTI None 4 0 1 0 (bytes_of "A") (GBlock None 4 [GInt "ULong" 1 7 false]) false])].
Definition demo_ifd_value2 : gifd := GStruct None 0 [GInt "UInt" 0 5 false; GTaggedStruct demo_tagged2].
Definition demo_follow2 : list shape := [(TEnd, end_text); (TIdentifier, bytes_of "IF_DATA")].

Ltac conf_steps := repeat first
  [ apply F.cs_nil | apply F.ca_nil | apply F.ci_nil | apply F.cs_cons | apply F.ca_cons | apply F.ci_cons
  | apply F.conf_struct | (apply F.conf_sequence; [| repeat constructor; discriminate | reflexivity])
  | (eapply F.conf_int; reflexivity) ].
Example C18_conformance_example_with_tagged_items : F.conf [] demo_spec2 demo_ifd_value2 demo_follow2.
Proof.
  unfold demo_spec2, demo_ifd_value2. conf_steps.
  apply F.conf_taggedstruct; [| reflexivity | reflexivity].
  let w := eval vm_compute in (F.witems demo_tagged2) in change (F.witems demo_tagged2) with w.
  apply F.ci_cons.
  { apply (F.cit _ _ _ _ _ _ _ _ (Tagged (bytes_of "BLK") true true (TStruct [TUChar; TSequence TUInt]))
             (GStruct None 0 [GInt "UChar" 1 9 false; GSequence [GInt "UInt" 1 1 false; GInt "UInt" 1 2 true]]) None 3); [reflexivity | reflexivity | conf_steps]. }
  apply F.ci_cons.
  { apply (F.cit _ _ _ _ _ _ _ _ (Tagged (bytes_of "BLK") true true (TStruct [TUChar; TSequence TUInt]))
             (GStruct None 0 [GInt "UChar" 1 8 false; GSequence []]) None 5); [reflexivity | reflexivity | conf_steps]. }
  apply F.ci_cons.
  { apply (F.cit _ _ _ _ _ _ _ _ (Tagged (bytes_of "A") false false TULong) (GInt "ULong" 1 7 false) None 4); [reflexivity | reflexivity | conf_steps]. }
  apply F.ci_nil.
Qed.

(* [F.ftoks] is what the byte-level writer prints (the new item A, uid 0, behind the loaded ones): the scanner cuts the written text into exactly these tokens *)
Example C18_written_text_with_tagged_items_has_these_tokens :
  match tokenize_core 0 (gifd_write [] [] 6 demo_ifd_value2 2) with TOk t => map shape_of t | _ => [] end = F.ftoks [] demo_ifd_value2.
Proof. vm_compute. reflexivity. Qed.

(* ---------- values survive: through the text ---------- *)
From A2L Require Proofs.IfdataTextProofs Proofs.LexUnitsProofs.
Module T := A2L.Proofs.IfdataTextProofs.

(* GenericIfData::write (Gram/Writer.v gifd_write, with enough fuel for the nesting of the value) produces for a conforming value
   a text made of white space and exactly the tokens [F.ftoks] ... *)
Theorem C18_written_text_of_a_conforming_value_is_its_tokens : forall ftab names f ty g k indent, F.conf ftab ty g k -> (T.gdepth g <= f)%nat ->
  exists us, gifd_write ftab names f g indent = LexUnitsProofs.render us /\ map snd us = F.ftoks ftab g /\
             Forall (fun u => LexUnitsProofs.ws_text (fst u)) us.
Proof. intros ftab names f ty g k indent Hc Hd. exact (T.gifd_write_units ftab names f ty g k indent Hc Hd). Qed.
Print Assumptions C18_written_text_of_a_conforming_value_is_its_tokens.

(* ... so writing the content of an IF_DATA block, scanning the text (closed by /end TAG) and reading it with the typed parser
   returns the value that was written, and leaves exactly the /end TAG: for every definition, every conforming value (scalars,
   strings, enums, arrays, structs, sequences, tagged structs and unions, any nesting) whose token texts are well-formed tokens
   (identifiers that are identifiers; the float texts come from the oracle table) *)
Theorem C18_written_content_is_read_back_from_its_text : forall ftab names f F' ty g tag indent c,
  F.conf ftab ty g [(TEnd, end_text); (TIdentifier, tag)] -> (T.gdepth g <= f)%nat -> (ty_depth ty <= F')%nat -> c_fileid c = O ->
  Forall LexUnitsProofs.token_text (F.ftoks ftab g) -> LexUnitsProofs.ident_text tag ->
  exists toks g' s',
    tokenize_core 0 (gifd_write ftab names f g indent ++ bytes_of " /end " ++ tag) = TOk toks /\
    parse_ifdata_item F' ty c (init_state toks false 1 ftab) = (ROk g', s') /\
    map shape_of (ps_after s') = [(TEnd, end_text); (TIdentifier, tag)] /\ F.ev g' = F.ev g.
Proof. intros ftab names f F' ty g tag indent c H1 H2 H3 H4 H5 H6. exact (T.ifdata_content_roundtrip ftab names f F' ty g tag indent c H1 H2 H3 H4 H5 H6). Qed.
Print Assumptions C18_written_content_is_read_back_from_its_text.

(* ... and the premise on the token texts follows from the definition: when its tags and enumeration items are identifiers
   ([T.def_ok]) and the float texts of the oracle table are number tokens ([T.floats_wf]), every conforming value is written with
   well-formed tokens *)
Theorem C18_written_content_of_a_well_formed_definition_is_read_back : forall ftab names f F' ty g tag indent c,
  T.floats_wf ftab -> T.def_ok ty -> LexUnitsProofs.ident_text tag ->
  F.conf ftab ty g [(TEnd, end_text); (TIdentifier, tag)] -> (T.gdepth g <= f)%nat -> (ty_depth ty <= F')%nat -> c_fileid c = O ->
  exists toks g' s',
    tokenize_core 0 (gifd_write ftab names f g indent ++ bytes_of " /end " ++ tag) = TOk toks /\
    parse_ifdata_item F' ty c (init_state toks false 1 ftab) = (ROk g', s') /\
    map shape_of (ps_after s') = [(TEnd, end_text); (TIdentifier, tag)] /\ F.ev g' = F.ev g.
Proof. intros ftab names f F' ty g tag indent c H1 H2 H3 H4 H5 H6 H7. exact (T.ifdata_content_roundtrip_of_definition ftab names f F' ty g tag indent c H1 H2 H3 H4 H5 H6 H7). Qed.
Print Assumptions C18_written_content_of_a_well_formed_definition_is_read_back.

Example C18_example_definition_is_well_formed : T.def_ok demo_spec2 /\ T.floats_wf [].
Proof.
  split.
  - cbn. repeat split; first [reflexivity | discriminate | (repeat constructor; fail)].
  - intros bits [H|H]; [unfold float_ok in H | unfold double_ok in H]; cbn [find_fentry] in H; [discriminate | rewrite andb_false_r in H; discriminate].
Qed.

(* the premises are met by the example value *)
Example C18_text_round_trip_premises :
  (T.gdepth demo_ifd_value2 <= 6)%nat /\ (ty_depth demo_spec2 <= 5)%nat /\
  Forall LexUnitsProofs.token_text (F.ftoks [] demo_ifd_value2) /\ LexUnitsProofs.ident_text (bytes_of "IF_DATA").
Proof.
  split; [vm_compute; repeat constructor|]. split; [vm_compute; repeat constructor|].
  split; [apply T.token_texts_ok; vm_compute; reflexivity|].
  split; [vm_compute; reflexivity|]. split; [repeat constructor | discriminate].
Qed.

(* ---------- the IF_DATA block as the block parser meets it ---------- *)
From A2L Require Proofs.IfdataBlockProofs.
Module B := A2L.Proofs.IfdataBlockProofs.

(* conformance relative to the following tokens looks at the first two of them only: in front of "/end IF_DATA" is in front of
   "/end IF_DATA" and anything behind it *)
Theorem C18_conformance_looks_at_two_following_tokens : forall ftab n ty g k k', (T.gdepth g <= n)%nat -> firstn 2 k = firstn 2 k' ->
  F.conf ftab ty g k -> F.conf ftab ty g k'.
Proof. exact B.conf_follow_ext. Qed.
Print Assumptions C18_conformance_looks_at_two_following_tokens.

(* IfData::parse (the IF_DATA branch of the block parser, behind "/begin IF_DATA"): content that conforms to the first applicable
   definition is returned as the content of a VALID block, and the block is consumed up to and including its "/end IF_DATA" *)
Theorem C18_conforming_if_data_block_is_read_as_valid : forall ftab rec ifuel td newc lo sp specs g,
  t_special td = Some "IfData"%string -> c_fileid newc = O ->
  F.conf ftab sp g [(TEnd, end_text); (TIdentifier, bytes_of "IF_DATA")] ->
  forall s ts tE tI post, Inv s -> ps_ftab s = ftab -> ps_specs s = sp :: specs ->
  ps_after s = ts ++ tE :: tI :: post -> map shape_of ts = F.ftoks ftab g ->
  shape_of tE = (TEnd, end_text) -> shape_of tI = (TIdentifier, bytes_of "IF_DATA") ->
  exists g' lay s', parse_special_or_generic rec ifuel td newc lo s = (ROk (VIfData lay (Some (make_block g' None (c_line newc))) true), s') /\
                    adv (ts ++ [tE; tI]) s s' /\ F.ev g' = F.ev g /\ l_so lay = lo.
Proof. exact B.conforming_ifdata_block_is_read. Qed.
Print Assumptions C18_conforming_if_data_block_is_read_as_valid.

(* ---------- a recorded finding, as the model shows it ---------- *)
(* known finding tagged-multiplicity-not-enforced: a member declared without ( )* may occur any number of times - the content is
   flagged valid and both items are kept.  The model reproduces it (the implementation is replayed on the same input by the check). *)
Example C18_known_tagged_multiplicity_witness :
  match tokenize_core 0 (bytes_of "T 1 T 2 /end IF_DATA") with
  | TOk toks =>
      match parse_ifdata [TTaggedStruct [Tagged (bytes_of "T") false false TUInt]] 5 (mkCtx (bytes_of "IF_DATA") O 1) (init_state toks false 1 []) with
      | (ROk (Some (GBlock _ _ [GTaggedStruct [(_, items)]]), valid), s') => Some (valid, length items, ps_log s')
      | _ => None
      end
  | _ => None
  end = Some (true, 2%nat, []).
Proof. vm_compute. reflexivity. Qed.
