(** C08 — merge conserves both inputs: no loss, no duplicates, unique names.
    One namespace of the merge (objects, typedefs, conversion tables, COMPU_METHOD, UNIT, RECORD_LAYOUT, FRAME,
    TRANSFORMER, MEMORY_SEGMENT) is a list of items (kind, name, content); GROUP and FUNCTION are merged by name. *)
From Coq Require Import String List NArith Ascii.
From A2L Require Import Text.Escape Lib.Merge Proofs.MergeProofs.
Import ListNotations.

(* the merge of a namespace always yields a result, and every element of A is in it, unchanged and in place *)
Theorem C08_keeps_every_element_of_A : forall orig merge, NoDup (names merge) ->
  exists added, merge_ns orig merge = Some (orig ++ added).
Proof. exact merge_keeps_orig. Qed.
Print Assumptions C08_keeps_every_element_of_A.

(* the result in closed form: A, followed by B's elements in B's order, where an identical twin is dropped,
   a new name is taken as it is and a conflicting element is renamed *)
Theorem C08_result_closed_form : forall orig merge, NoDup (names merge) ->
  merge_ns orig merge = Some (orig ++ flat_map (repr orig merge) merge).
Proof. exact merge_ns_spec. Qed.
Print Assumptions C08_result_closed_form.

(* every element of B is represented: shared with A, added, or added under a fresh name X.MERGE / X.MERGEn
   that neither A nor B uses *)
Theorem C08_represents_every_element_of_B : forall orig merge res m, NoDup (names merge) ->
  merge_ns orig merge = Some res -> In m merge ->
  In m orig
  \/ (~ In (it_name m) (names orig) /\ In m res)
  \/ (exists o nn, In o orig /\ it_name o = it_name m /\ o <> m /\
                   In (set_name m nn) res /\
                   ~ In nn (names orig) /\ ~ In nn (names merge) /\ exists j, nn = candidate (it_name m) j).
Proof. exact merge_represents. Qed.
Print Assumptions C08_represents_every_element_of_B.

(* nothing else appears *)
Theorem C08_nothing_invented : forall orig merge res x, NoDup (names merge) ->
  merge_ns orig merge = Some res -> In x res ->
  In x orig \/ exists m, In m merge /\ it_kind x = it_kind m /\ it_body x = it_body m /\
                         (x = m \/ exists j, it_name x = candidate (it_name m) j).
Proof. exact merge_nothing_invented. Qed.
Print Assumptions C08_nothing_invented.

(* names stay unique within the namespace (across all kinds that share it) *)
Theorem C08_names_stay_unique : forall orig merge res,
  NoDup (names orig) -> NoDup (names merge) -> merge_ns orig merge = Some res -> NoDup (names res).
Proof. exact merge_names_unique. Qed.
Print Assumptions C08_names_stay_unique.

(* the while loop of make_unique_name terminates, whatever names of the form X.MERGEn exist already,
   and its result is used by neither side *)
Theorem C08_unique_name_terminates : forall n orig merge, exists c, make_unique_name n orig merge = Some c.
Proof. exact make_unique_name_total. Qed.
Print Assumptions C08_unique_name_terminates.
Theorem C08_unique_name_is_fresh : forall n orig merge c, make_unique_name n orig merge = Some c ->
  ~ In c (names orig) /\ ~ In c (names merge) /\ exists j, c = candidate n j.
Proof. exact make_unique_name_fresh. Qed.
Print Assumptions C08_unique_name_is_fresh.
(* two different elements can never be given the same generated name *)
Theorem C08_generated_names_do_not_collide : forall n1 n2 i j, candidate n1 i = candidate n2 j -> n1 = n2.
Proof. exact candidate_name_inj. Qed.
Print Assumptions C08_generated_names_do_not_collide.

(* neutral cases *)
Theorem C08_merging_nothing_changes_nothing : forall orig, merge_ns orig [] = Some orig.
Proof. exact merge_empty_right. Qed.
Print Assumptions C08_merging_nothing_changes_nothing.
Theorem C08_merging_an_identical_copy_changes_nothing : forall a, NoDup (names a) -> merge_ns a a = Some a.
Proof. exact merge_identical. Qed.
Print Assumptions C08_merging_an_identical_copy_changes_nothing.
Theorem C08_merging_into_empty_yields_B : forall b, NoDup (names b) -> merge_ns [] b = Some b.
Proof. exact merge_into_empty. Qed.
Print Assumptions C08_merging_into_empty_yields_B.

(* sequences of merges *)
Theorem C08_sequences_of_merges : forall bs a,
  NoDup (names a) -> Forall (fun b => NoDup (names b)) bs ->
  exists added, merge_all a bs = Some (a ++ added) /\ NoDup (names (a ++ added)).
Proof. exact merge_all_invariant. Qed.
Print Assumptions C08_sequences_of_merges.

(* GROUP / FUNCTION: every group of A keeps its place, name and remaining content and its member lists only grow
   at the end; every group of B is covered by a group of the same name that holds all its members *)
Theorem C08_groups_only_gain_members : forall k merge orig,
  Forall (fun o => length (g_lists o) = k) orig -> Forall (fun o => length (g_lists o) = k) merge ->
  exists orig' tl, merge_grps orig merge = orig' ++ tl /\ Forall2 grows orig orig' /\
    forall g, In g merge -> exists o', In o' (orig' ++ tl) /\ covers g o'.
Proof. exact merge_grps_spec. Qed.
Print Assumptions C08_groups_only_gain_members.
Theorem C08_group_names_stay_unique : forall merge orig, NoDup (gnames orig) -> NoDup (gnames (merge_grps orig merge)).
Proof. exact merge_grps_names_unique. Qed.
Print Assumptions C08_group_names_stay_unique.
Theorem C08_groups_identical_copy : forall a, NoDup (gnames a) -> merge_grps a a = a.
Proof. exact merge_grps_identical. Qed.
Print Assumptions C08_groups_identical_copy.
Theorem C08_groups_into_empty : forall b, NoDup (gnames b) -> merge_grps [] b = b.
Proof. exact merge_grps_into_empty. Qed.
Print Assumptions C08_groups_into_empty.

(* non-vacuity: a conflict, a twin, a newcomer and a pre-existing X.MERGE name, by computation *)
Example C08_example :
  let s := (fun x : string => list_ascii_of_string x) in
  merge_ns [mkItem 4%N (s "X"%string) 1%N; mkItem 2%N (s "X.MERGE"%string) 1%N; mkItem 4%N (s "T"%string) 7%N]
           [mkItem 2%N (s "X"%string) 1%N; mkItem 4%N (s "T"%string) 7%N; mkItem 0%N (s "N"%string) 3%N]
  = Some [mkItem 4%N (s "X"%string) 1%N; mkItem 2%N (s "X.MERGE"%string) 1%N; mkItem 4%N (s "T"%string) 7%N;
          mkItem 2%N (s "X.MERGE2"%string) 1%N; mkItem 0%N (s "N"%string) 3%N].
Proof. vm_compute. reflexivity. Qed.
