(** C07 — non-strict recovery is local: an unknown element is skipped with exactly one warning and the cursor is
    left exactly behind it; strict mode rejects it with an error that names it.  (That the rest of the file is then
    loaded "as if it were not there" is the composition with the generic parser: tied by the correspondence run and
    evaluated by the oracle on the implementation, which compares the models with and without the element.) *)
From Coq Require Import Ascii String List Bool NArith ZArith.
From A2L Require Import Text.Escape Lex.Tokenizer Gram.Spec Gram.PState Proofs.UnknownProofs.
Import ListNotations.

(* block form:  /begin TAG  u  /end TAG  with any balanced payload u (nested unknown blocks, comments, scalars) *)
Theorem C07_unknown_block_skipped : forall c tag stop s u tend ttag post,
  ps_strict s = false -> Nat.ltb (c_fileid c) (ps_nfiles s) = true ->
  balanced u -> tk_type tend = TEnd -> tk_type ttag = TIdentifier -> tk_text ttag = tag ->
  ps_after s = u ++ tend :: ttag :: post ->
  exists s', handle_unknown_taggedstruct_tag c tag true stop s = (ROk tt, s') /\
             ps_after s' = post /\
             ps_log s' = mkDiag "UnknownSubBlock" (Some (ps_last s)) (c_fileid c) tag :: ps_log s.
Proof. exact skip_unknown_block. Qed.
Print Assumptions C07_unknown_block_skipped.

(* keyword form:  TAG u  where u contains no /begin, /end or tag of the enclosing block, followed by the /end of the
   enclosing block, a sibling keyword, or a sibling block *)
Theorem C07_unknown_keyword_skipped : forall c tag stop s u post,
  ps_strict s = false -> Nat.ltb (c_fileid c) (ps_nfiles s) = true ->
  Forall (kw_token stop) u -> stopper stop post -> ps_after s = u ++ post ->
  exists s', handle_unknown_taggedstruct_tag c tag false stop s = (ROk tt, s') /\
             ps_after s' = post /\
             ps_log s' = mkDiag "UnknownSubBlock" (Some (ps_last s)) (c_fileid c) tag :: ps_log s.
Proof. exact skip_unknown_keyword. Qed.
Print Assumptions C07_unknown_keyword_skipped.

Theorem C07_strict_names_the_unknown_element : forall c tag is_block stop s,
  ps_strict s = true -> Nat.ltb (c_fileid c) (ps_nfiles s) = true ->
  handle_unknown_taggedstruct_tag c tag is_block stop s =
    (RErr (mkDiag "UnknownSubBlock" (Some (ps_last s)) (c_fileid c) tag), s).
Proof. exact unknown_strict_names_tag. Qed.
Print Assumptions C07_strict_names_the_unknown_element.

(* non-vacuity: a nested payload is balanced *)
Example C07_balanced_example :
  let tk ty (txt : string) := mkTok ty 0 0 (list_ascii_of_string txt) 1 0 in
  balanced [tk TNumber "1"%string; tk TBegin "/begin"%string; tk TIdentifier "INNER"%string; tk TString "s"%string;
            tk TEnd "/end"%string; tk TIdentifier "INNER"%string; tk TComment "/* c */"%string].
Proof.
  cbv zeta. apply bal_tok; try discriminate.
  apply (bal_block _ [_; _] _ [_; _]); try reflexivity.
  - repeat (apply bal_tok; try discriminate). constructor.
  - repeat (apply bal_tok; try discriminate). constructor.
Qed.
