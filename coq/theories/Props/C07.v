(** C07 — non-strict recovery is local: an unknown element is skipped with exactly one warning and the cursor is
    left exactly behind it; strict mode rejects it with an error that names it.  That the block around it
    is then parsed "as if it were not there" is proved for unknown blocks between the children of a block
    ([C07_unknown_blocks_between_children_change_nothing]); for unknown keywords and for whole files it is tied by the
    correspondence run and evaluated by the oracle on the implementation, which compares the models with and without the
    element. *)
From Coq Require Import Ascii String List Bool NArith ZArith.
From A2L Require Import Text.Escape Lex.Tokenizer Gram.Spec Gram.PState Gram.Parser Gram.TokWriter Proofs.UnknownProofs
  Proofs.CursorProofs Proofs.RoundTripProofs Proofs.UnknownComposeProofs.
Import ListNotations.

(* block form:  /begin TAG  u  /end TAG  with any balanced payload u (nested unknown blocks, comments, scalars) *)
Theorem C07_unknown_block_skipped : forall c tag stop s u tend ttag post,
  ps_strict s = false -> Nat.ltb (c_fileid c) (ps_nfiles s) = true ->
  balanced u -> tk_type tend = TEnd -> tk_type ttag = TIdentifier -> tk_text ttag = tag ->
  ps_after s = u ++ tend :: ttag :: post ->
  exists s', handle_unknown_taggedstruct_tag c tag true stop s = (ROk tt, s') /\
             ps_after s' = post /\
             ps_log s' = mkDiag "UnknownSubBlock" (Some (ps_last s)) (c_fileid c) tag :: ps_log s.
Proof. exact skip_unknown_block. Qed.
Print Assumptions C07_unknown_block_skipped.

(* keyword form:  TAG u  where u contains no /begin, /end or tag of the enclosing block, followed by the /end of the
   enclosing block, a sibling keyword, or a sibling block *)
Theorem C07_unknown_keyword_skipped : forall c tag stop s u post,
  ps_strict s = false -> Nat.ltb (c_fileid c) (ps_nfiles s) = true ->
  Forall (kw_token stop) u -> stopper stop post -> ps_after s = u ++ post ->
  exists s', handle_unknown_taggedstruct_tag c tag false stop s = (ROk tt, s') /\
             ps_after s' = post /\
             ps_log s' = mkDiag "UnknownSubBlock" (Some (ps_last s)) (c_fileid c) tag :: ps_log s.
Proof. exact skip_unknown_keyword. Qed.
Print Assumptions C07_unknown_keyword_skipped.

Theorem C07_strict_names_the_unknown_element : forall c tag is_block stop s,
  ps_strict s = true -> Nat.ltb (c_fileid c) (ps_nfiles s) = true ->
  handle_unknown_taggedstruct_tag c tag is_block stop s =
    (RErr (mkDiag "UnknownSubBlock" (Some (ps_last s)) (c_fileid c) tag), s).
Proof. exact unknown_strict_names_tag. Qed.
Print Assumptions C07_strict_names_the_unknown_element.

(* Composition with the generic parser, one level: the tagged-item loop of a block (non-strict mode), run on the tokens of
   its children - in runs [SKids] as the writer emits them - with unknown blocks [SUnknown] (any balanced payload, a tag
   that is not one of the block's items) anywhere between them, returns the same lists of children, up to layout, as the
   children alone would give ([fold_left place] over the entries only), and stops in front of the /end of the block.
   The children themselves are parsed by [rec]; what is assumed about them ([entries_fine]) is what
   C01_parser_rebuilds_what_the_writer_emits provides. *)
Theorem C07_unknown_blocks_between_children_change_nothing :
  forall c, c_fileid c = O -> forall S ftab rec ifuel titems w rx tail,
  hd_shape tail = Some (TEnd, end_text) ->
  forall segs kids cms s n, Inv s -> ps_ftab s = ftab -> (length (segs_tokens segs) < n)%nat ->
  segs_fine S ftab rec titems w rx segs tail -> ps_after s = segs_tokens segs ++ tail ->
  exists kids' s', tagged_loop S rec ifuel n true true titems c kids cms s = (ROk (kids', cms), s') /\
    adv (segs_tokens segs) s s' /\
    forall K, map (map erase) kids = map (map erase) K ->
              map (map erase) kids' = map (map erase) (fold_left (place rx) (segs_entries segs) K).
Proof. exact loop_with_unknown_blocks. Qed.
Print Assumptions C07_unknown_blocks_between_children_change_nothing.

(* non-vacuity: a nested payload is balanced *)
Example C07_balanced_example :
  let tk ty (txt : string) := mkTok ty 0 0 (list_ascii_of_string txt) 1 0 in
  balanced [tk TNumber "1"%string; tk TBegin "/begin"%string; tk TIdentifier "INNER"%string; tk TString "s"%string;
            tk TEnd "/end"%string; tk TIdentifier "INNER"%string; tk TComment "/* c */"%string].
Proof.
  cbv zeta. apply bal_tok; try discriminate.
  apply (bal_block _ [_; _] _ [_; _]); try reflexivity.
  - repeat (apply bal_tok; try discriminate). constructor.
  - repeat (apply bal_tok; try discriminate). constructor.
Qed.
