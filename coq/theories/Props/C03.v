(** C03 — loading never panics, overflows or hangs.  Proved for every byte string: the scanner returns tokens or a
    tokenizer error (no out-of-bounds access - the model makes every index explicit -, and every loop consumes input:
    the fuel "length of the input + 1" is never exhausted); the token lines it produces never decrease and start at 1
    (the parser's u32 line differences cannot underflow within a file); the string-end and comment-end searches are
    total functions of the remaining input.
    The parser (Proofs/TerminationProofs.v): the loops and recursive functions of parser.rs / ifdata.rs carry no bound in
    the Rust code; the model gives each loop the number of remaining tokens (+1 or +2) as fuel and each recursion the
    number of tokens of the file + 2 as depth.  For every token list that the include expansion can produce, in both
    modes, with any A2ML definitions and any nesting, parse_file never uses that fuel up - each turn of a loop that goes
    on has consumed a token, each level of recursion too - so the model's answer is the answer of the unbounded
    recursion and every loop of the parser ends.  Panics of the parser are tied by the correspondence run on malformed
    inputs (the model reports the panic sites explicitly) and evaluated by the totality oracle; the stack depth of the
    recursion is a runtime resource (known finding: unbounded recursion). *)
From Coq Require Import Ascii String List Bool NArith ZArith.
From A2L Require Import Base.Res Text.Escape Lex.Tokenizer Lex.Include Gram.Spec Gram.PState Gram.Parser Gen.SpecShipped
  Proofs.TokenizerProofs Proofs.LayoutProofs Proofs.CursorProofs Proofs.ParseTraceProofs Proofs.TerminationProofs.
Import ListNotations.
Local Open Scope N_scope.

Theorem C03_tokenizer_total : forall fid text,
  (exists toks, tokenize_core fid text = TOk toks) \/ (exists e, tokenize_core fid text = TErr e).
Proof. exact tokenize_core_total. Qed.
Print Assumptions C03_tokenizer_total.

Theorem C03_tokenizer_never_panics : forall fid text site, tokenize_core fid text <> TPanic site.
Proof. exact tokenize_core_no_panic. Qed.
Print Assumptions C03_tokenizer_never_panics.

Theorem C03_tokenizer_always_terminates : forall fid text, tokenize_core fid text <> TFuel.
Proof. exact tokenize_core_no_fuel. Qed.
Print Assumptions C03_tokenizer_always_terminates.

(* the A2ML block scan (the site of the former out-of-bounds access) terminates within its input *)
Theorem C03_a2ml_scan_terminates : forall fuel s c, (length s < fuel)%nat -> a2ml_scan fuel s c <> None.
Proof. exact a2ml_scan_fuel. Qed.
Print Assumptions C03_a2ml_scan_terminates.

Theorem C03_token_lines_monotone : forall fid text toks, tokenize_core fid text = TOk toks ->
  lines_sorted toks /\ Forall (fun t => 1 <= tk_line t) toks.
Proof. exact tokenize_lines_monotone. Qed.
Print Assumptions C03_token_lines_monotone.

(* regression witnesses of the repaired crashes, by computation on the model *)
Example C03_former_crash_inputs :
  (exists r, tokenize_core 0 (list_ascii_of_string "/begin A2ML ") = TOk r) /\
  (exists r, tokenize_core 0 (list_ascii_of_string "/begin A2ML") = TOk r) /\
  (exists r, tokenize_core 0 (list_ascii_of_string "/begin A2ML /* x") = TOk r).
Proof. repeat split; vm_compute; eexists; reflexivity. Qed.

(* ---------- the parser ---------- *)
Lemma C03_shipped_grammar_is_covered : spec_ok spec_shipped = true.
Proof. vm_compute. reflexivity. Qed.
Lemma C03_shipped_version_element_is_plain : forall td, lookup_ty spec_shipped "Asap2Version" = Some td -> plain td = true.
Proof. intros td H. vm_compute in H. injection H as <-. vm_compute. reflexivity. Qed.

(* whatever the include expansion hands to the parser contains no Include token *)
Theorem C03_expanded_token_list_has_no_include_token : forall fs fuel f fileid text toks files,
  tokenize_inc fs fuel f fileid text = IOk toks files -> Forall (fun t => tk_type t <> TInclude) toks.
Proof. exact tokenize_inc_no_include. Qed.
Print Assumptions C03_expanded_token_list_has_no_include_token.

(* every loop and every recursion of the parser ends: the fuel of the model is never used up *)
Theorem C03_parser_always_terminates : forall toks strict nfiles ftab specs oracle,
  Forall (fun t => tk_type t <> TInclude) toks ->
  fst (parse_file spec_shipped (init_state_a2ml toks strict nfiles ftab specs oracle)) <> RFuel.
Proof.
  intros toks strict nfiles ftab specs oracle H.
  apply (parse_file_no_fuel spec_shipped C03_shipped_grammar_is_covered C03_shipped_version_element_is_plain); [|reflexivity].
  constructor; [reflexivity | exact H].
Qed.
Print Assumptions C03_parser_always_terminates.

(* the same for every grammar that meets the (executable) grammar condition, from any start state at position 0 *)
Theorem C03_parser_always_terminates_for_any_grammar : forall G s0,
  spec_ok G = true -> (forall td, lookup_ty G "Asap2Version" = Some td -> plain td = true) ->
  W s0 -> ps_pos s0 = O -> fst (parse_file G s0) <> RFuel.
Proof. intros G s0 H1 H2. exact (parse_file_no_fuel G H1 H2 s0). Qed.
Print Assumptions C03_parser_always_terminates_for_any_grammar.

(* uninterpreted IF_DATA of any nesting depth, typed IF_DATA under any definition: no loop without progress *)
Theorem C03_uninterpreted_ifdata_terminates : forall fuel c B lo p, (lo <= p)%nat -> (B + 2 <= fuel + p)%nat ->
  tm B lo p (fun _ => p) (unknown_ifdata fuel c true).
Proof. exact tm_unknown_ifdata. Qed.
Theorem C03_typed_ifdata_terminates : forall f ty c B lo p, (ty_depth ty <= f)%nat -> (lo <= p)%nat ->
  tm B lo p (fun _ => p) (parse_ifdata_item f ty c).
Proof. exact tm_parse_ifdata_item. Qed.
Print Assumptions C03_uninterpreted_ifdata_terminates.
Print Assumptions C03_typed_ifdata_terminates.

(* the premises are met: a token list with comments, an unknown block, IF_DATA and a number that is no i32 *)
Example C03_termination_example :
  exists toks, tokenize_core 0 (list_ascii_of_string
      "ASAP2_VERSION 1 71 /* c */ /begin PROJECT p """" /begin MODULE m """" /begin FOO 1 /begin BAR /end BAR /end FOO /begin IF_DATA X 1 2.5 0x1FFFFFFFF /begin Y a /end Y /end IF_DATA /end MODULE /end PROJECT") = TOk toks /\
    forallb (fun t => negb (ttype_eqb (tk_type t) TInclude)) toks = true /\
    Nat.leb 20 (length toks) = true.
Proof. eexists. split; [vm_compute; reflexivity|]. split; vm_compute; reflexivity. Qed.
