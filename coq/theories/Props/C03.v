(** C03 — loading never panics, overflows or hangs.  Proved for every byte string: the scanner returns tokens or a
    tokenizer error (no out-of-bounds access - the model makes every index explicit -, and every loop consumes input:
    the fuel "length of the input + 1" is never exhausted); the token lines it produces never decrease and start at 1
    (the parser's u32 line differences cannot underflow within a file); the string-end and comment-end searches are
    total functions of the remaining input.  The parser proper is tied by the correspondence run on malformed inputs
    (the model reports the panic sites explicitly) and evaluated by the totality oracle; recursion depth is a runtime
    resource (known finding: unbounded recursion). *)
From Coq Require Import Ascii String List Bool NArith ZArith.
From A2L Require Import Base.Res Text.Escape Lex.Tokenizer Proofs.TokenizerProofs Proofs.LayoutProofs.
Import ListNotations.
Local Open Scope N_scope.

Theorem C03_tokenizer_total : forall fid text,
  (exists toks, tokenize_core fid text = TOk toks) \/ (exists e, tokenize_core fid text = TErr e).
Proof. exact tokenize_core_total. Qed.
Print Assumptions C03_tokenizer_total.

Theorem C03_tokenizer_never_panics : forall fid text site, tokenize_core fid text <> TPanic site.
Proof. exact tokenize_core_no_panic. Qed.
Print Assumptions C03_tokenizer_never_panics.

Theorem C03_tokenizer_always_terminates : forall fid text, tokenize_core fid text <> TFuel.
Proof. exact tokenize_core_no_fuel. Qed.
Print Assumptions C03_tokenizer_always_terminates.

(* the A2ML block scan (the site of the former out-of-bounds access) terminates within its input *)
Theorem C03_a2ml_scan_terminates : forall fuel s c, (length s < fuel)%nat -> a2ml_scan fuel s c <> None.
Proof. exact a2ml_scan_fuel. Qed.
Print Assumptions C03_a2ml_scan_terminates.

Theorem C03_token_lines_monotone : forall fid text toks, tokenize_core fid text = TOk toks ->
  lines_sorted toks /\ Forall (fun t => 1 <= tk_line t) toks.
Proof. exact tokenize_lines_monotone. Qed.
Print Assumptions C03_token_lines_monotone.

(* regression witnesses of the repaired crashes, by computation on the model *)
Example C03_former_crash_inputs :
  (exists r, tokenize_core 0 (list_ascii_of_string "/begin A2ML ") = TOk r) /\
  (exists r, tokenize_core 0 (list_ascii_of_string "/begin A2ML") = TOk r) /\
  (exists r, tokenize_core 0 (list_ascii_of_string "/begin A2ML /* x") = TOk r).
Proof. repeat split; vm_compute; eexists; reflexivity. Qed.
