(** C16 — /include is transparent for loading and preserved by writing.
    Statements about the model of tokenizer.rs tokenize() (Lex/Include.v): include expansion against a file-system
    oracle, file ids, and the attribution of nested includes to a directive of the main file (which is what the
    writer prints).  Transparency with respect to the flattened TEXT, reload equality and merge_includes() are
    evaluated on the implementation and by the extracted model (tokenizer + parser + writer over several files),
    not proved; path handling of the operating system is outside the model: C16 is a partial proof. *)
From Coq Require Import Ascii String List Bool NArith.
From A2L Require Import Text.Escape Lex.Tokenizer Lex.Include Proofs.IncludeProofs.
Import ListNotations.

(* a file without directives is tokenised exactly like before, and it is the only file *)
Theorem C16_no_directive_no_effect : forall fs fuel f fileid text toks,
  tokenize_core fileid text = TOk toks -> no_include toks -> tokenize_inc fs (S fuel) f fileid text = IOk toks [f].
Proof. exact no_include_identity. Qed.
Print Assumptions C16_no_directive_no_effect.

(* a directive whose file cannot be read is an error that carries the line, the text of the directive and the name of
   the file it stands in - never a partial result *)
Theorem C16_missing_include_is_an_error_naming_the_directive : forall fs rec f next pre inc nt rest out files,
  no_include pre -> ttype_eqb (tk_type inc) TInclude = true -> is_name nt = true ->
  fs (fn_full f) (include_name nt) = None ->
  expand fs rec f next (pre ++ inc :: nt :: rest) out files = IErr (EIncludeFile (tk_line nt)) (fn_display f) (include_name nt).
Proof. exact missing_include_is_error. Qed.
Print Assumptions C16_missing_include_is_an_error_naming_the_directive.

Theorem C16_directive_without_name_is_an_error : forall fs rec f next pre inc rest out files,
  no_include pre -> ttype_eqb (tk_type inc) TInclude = true ->
  match rest with nt :: _ => is_name nt = false | [] => True end ->
  expand fs rec f next (pre ++ inc :: rest) out files = IErr (EIncompleteInclude (tk_line inc)) (fn_display f) [].
Proof. exact include_without_name_is_error. Qed.
Print Assumptions C16_directive_without_name_is_an_error.

(* nested includes, any depth: every file that is entered is attributed to a directive written in the MAIN file *)
Theorem C16_nested_includes_belong_to_a_directive_of_the_main_file : forall fs fuel main text toks files,
  fn_top main = None -> tokenize_inc fs fuel main 0 text = IOk toks files ->
  exists rest, files = main :: rest /\
    forall h, In h rest -> exists d, fn_top h = Some d /\
      In d (match tokenize_core 0 text with TOk t => directives t | _ => [] end).
Proof. exact nested_includes_belong_to_a_directive_of_the_main_file. Qed.
Print Assumptions C16_nested_includes_belong_to_a_directive_of_the_main_file.
