(** C16 — /include is transparent for loading and preserved by writing.
    Statements about the model of tokenizer.rs tokenize() (Lex/Include.v): include expansion against a file-system
    oracle, file ids, and the attribution of nested includes to a directive of the main file (which is what the
    writer prints), and about the parser (Proofs/ProvenanceProofs.v): the model that is built depends on the types and
    texts of the tokens only - not on the files they come from or the lines they stand on, which reach nothing but the
    layout data and the positions of diagnostics.  So loading through /include gives the model of ANY token list with the
    same types and texts, in particular of the tokens of the flattened text.  That the tokenizer cuts the flattened TEXT
    into exactly these tokens, reload equality and merge_includes() are evaluated on the implementation and by the
    extracted model (tokenizer + parser + writer over several files), not proved; path handling of the operating system
    is outside the model: C16 is a partial proof. *)
From Coq Require Import Ascii String List Bool NArith ZArith.
From A2L Require Import Text.Escape Lex.Tokenizer Lex.Include Gram.Spec Gram.PState Gram.Parser Proofs.IncludeProofs Proofs.ProvenanceProofs Proofs.SpliceProofs.
Import ListNotations.

(* a file without directives is tokenised exactly like before, and it is the only file *)
Theorem C16_no_directive_no_effect : forall fs fuel f fileid text toks,
  tokenize_core fileid text = TOk toks -> no_include toks -> tokenize_inc fs (S fuel) f fileid text = IOk toks [f].
Proof. exact no_include_identity. Qed.
Print Assumptions C16_no_directive_no_effect.

(* a directive whose file cannot be read is an error that carries the line, the text of the directive and the name of
   the file it stands in - never a partial result *)
Theorem C16_missing_include_is_an_error_naming_the_directive : forall fs rec f next pre inc nt rest out files,
  no_include pre -> ttype_eqb (tk_type inc) TInclude = true -> is_name nt = true ->
  fs (fn_full f) (include_name nt) = None ->
  expand fs rec f next (pre ++ inc :: nt :: rest) out files = IErr (EIncludeFile (tk_line nt)) (fn_display f) (include_name nt).
Proof. exact missing_include_is_error. Qed.
Print Assumptions C16_missing_include_is_an_error_naming_the_directive.

Theorem C16_directive_without_name_is_an_error : forall fs rec f next pre inc rest out files,
  no_include pre -> ttype_eqb (tk_type inc) TInclude = true ->
  match rest with nt :: _ => is_name nt = false | [] => True end ->
  expand fs rec f next (pre ++ inc :: rest) out files = IErr (EIncompleteInclude (tk_line inc)) (fn_display f) [].
Proof. exact include_without_name_is_error. Qed.
Print Assumptions C16_directive_without_name_is_an_error.

(* nested includes, any depth: every file that is entered is attributed to a directive written in the MAIN file *)
Theorem C16_nested_includes_belong_to_a_directive_of_the_main_file : forall fs fuel main text toks files,
  fn_top main = None -> tokenize_inc fs fuel main 0 text = IOk toks files ->
  exists rest, files = main :: rest /\
    forall h, In h rest -> exists d, fn_top h = Some d /\
      In d (match tokenize_core 0 text with TOk t => directives t | _ => [] end).
Proof. exact nested_includes_belong_to_a_directive_of_the_main_file. Qed.
Print Assumptions C16_nested_includes_belong_to_a_directive_of_the_main_file.

(* ---------- the parser does not look at where a token comes from ---------- *)
(* two runs of parse_file on token lists with the same types and texts (other files, other lines, other file tables), in
   the same mode with the same A2ML definitions: unless one of them hits a panic site of the model, both succeed with
   values that are equal once the layout data is erased (which is what == of the library compares), or both fail with
   the same error; and they log the same warnings *)
Theorem C16_model_depends_on_token_types_and_texts_only : forall G toks1 toks2 strict n1 n2 ftab specs oracle r1 s1 r2 s2,
  map tshape toks1 = map tshape toks2 ->
  parse_file G (init_state_a2ml toks1 strict n1 ftab specs oracle) = (r1, s1) ->
  parse_file G (init_state_a2ml toks2 strict n2 ftab specs oracle) = (r2, s2) ->
  panics r1 \/ panics r2 \/
  (match r1, r2 with
   | ROk v1, ROk v2 => er_value v1 = er_value v2
   | RErr d1, RErr d2 => er_diag d1 = er_diag d2
   | RFuel, RFuel => True
   | _, _ => False
   end /\ map er_diag (ps_log s1) = map er_diag (ps_log s2)).
Proof.
  intros G toks1 toks2 strict n1 n2 ftab specs oracle r1 s1 r2 s2 H E1 E2.
  assert (Q : seq (init_state_a2ml toks1 strict n1 ftab specs oracle) (init_state_a2ml toks2 strict n2 ftab specs oracle))
    by (constructor; cbn; solve [reflexivity | exact H]).
  destruct (sim_parse_file G _ _ _ _ _ _ Q E1 E2) as [P|[P|[Q' Rr]]]; [left; exact P | right; left; exact P|].
  right. right. split; [exact Rr | exact (q_log _ _ Q')].
Qed.
Print Assumptions C16_model_depends_on_token_types_and_texts_only.

(* the scanner hands the file id through to the tokens and does nothing else with it *)
Theorem C16_scanner_does_not_look_at_the_file_id : forall f text,
  tokenize_core f text = res_map (map (sf f)) (tokenize_core 0 text).
Proof. exact tokenize_core_fileid. Qed.
Print Assumptions C16_scanner_does_not_look_at_the_file_id.

(* the include expansion, on types and texts: the token list of the named file stands where the two tokens of the
   directive stood, recursively; file ids, display names and counters play no part *)
Theorem C16_expansion_splices_token_lists : forall fs fuel f fid text toks files,
  tokenize_inc fs fuel f fid text = IOk toks files -> stokenize fs fuel (fn_full f) text = Some (map tshape toks).
Proof. exact tokenize_inc_shapes. Qed.
Print Assumptions C16_expansion_splices_token_lists.

(* together: loading a file through its /include directives builds the model that parsing ANY token list with the spliced
   types and texts builds - e.g. the token list of one file whose text is cut into these tokens *)
Theorem C16_include_loading_is_loading_the_spliced_tokens : forall fs fuel main text toks files G flat strict n1 n2 ftab specs oracle r1 s1 r2 s2,
  tokenize_inc fs fuel main 0 text = IOk toks files ->
  stokenize fs fuel (fn_full main) text = Some (map tshape flat) ->
  parse_file G (init_state_a2ml toks strict n1 ftab specs oracle) = (r1, s1) ->
  parse_file G (init_state_a2ml flat strict n2 ftab specs oracle) = (r2, s2) ->
  panics r1 \/ panics r2 \/
  (match r1, r2 with
   | ROk v1, ROk v2 => er_value v1 = er_value v2
   | RErr d1, RErr d2 => er_diag d1 = er_diag d2
   | RFuel, RFuel => True
   | _, _ => False
   end /\ map er_diag (ps_log s1) = map er_diag (ps_log s2)).
Proof.
  intros fs fuel main text toks files G flat strict n1 n2 ftab specs oracle r1 s1 r2 s2 E Hs E1 E2.
  apply (C16_model_depends_on_token_types_and_texts_only G toks flat strict n1 n2 ftab specs oracle r1 s1 r2 s2); [|exact E1 | exact E2].
  pose proof (tokenize_inc_shapes fs fuel main 0 text toks files E) as H. rewrite Hs in H. injection H as H. symmetry. exact H.
Qed.
Print Assumptions C16_include_loading_is_loading_the_spliced_tokens.

(* what is erased: line, line offsets, include attribution of elements and comments - nothing else *)
Example C16_erasure_keeps_the_data :
  er_value (VNode "Measurement" (mkLay 7%N 12%N 1%N 2%N (Some 3%nat)) [VScalar (SText (bytes_of "speed")) 4%N; VScalar (SInt 5%Z true) 0%N] [[]]
              [mkCm (bytes_of "/* c */") 8%N 12%N 1%N true])
  = VNode "Measurement" (mkLay 7%N 0%N 0%N 0%N None) [VScalar (SText (bytes_of "speed")) 0%N; VScalar (SInt 5%Z true) 0%N] [[]]
      [mkCm (bytes_of "/* c */") 8%N 0%N 0%N false].
Proof. reflexivity. Qed.

(* the premises are met: a main file with a directive, the file it names, and the flattened text - the expansion yields two
   files, and the scanner cuts the flattened text into tokens with exactly the spliced types and texts *)
Definition demo_inc : bytes := bytes_of "/begin MEASUREMENT m """" UBYTE cm 0 0 0 255 /* c */ /end MEASUREMENT".
Definition demo_fs (base name : bytes) : option (bytes * bytes) :=
  if bytes_eqb name (bytes_of "inc.a2l") then Some (bytes_of "dir/inc.a2l", demo_inc) else None.
Definition demo_main : bytes := bytes_of "ASAP2_VERSION 1 71 /begin PROJECT p """" /begin MODULE m """"
  /include ""inc.a2l""
  /end MODULE /end PROJECT".
Definition demo_flat : bytes := bytes_of "ASAP2_VERSION 1 71 /begin PROJECT p """" /begin MODULE m """"
  /begin MEASUREMENT m """" UBYTE cm 0 0 0 255 /* c */ /end MEASUREMENT
  /end MODULE /end PROJECT".
Example C16_premises_are_met :
  exists toks files flat,
    tokenize_inc demo_fs 4 (mkFn (bytes_of "dir/main.a2l") (bytes_of "main.a2l") None) 0 demo_main = IOk toks files /\
    length files = 2%nat /\
    tokenize_core 0 demo_flat = TOk flat /\
    stokenize demo_fs 4 (bytes_of "dir/main.a2l") demo_main = Some (map tshape flat) /\
    existsb (fun t => Nat.eqb (tk_fileid t) 1) toks = true.
Proof. eexists. eexists. eexists. split; [vm_compute; reflexivity|]. split; [reflexivity|]. split; [vm_compute; reflexivity|]. split; vm_compute; reflexivity. Qed.
