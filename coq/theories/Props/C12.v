(** C12 — check(): limit plausibility follows data type and conversion. *)
From Coq Require Import ZArith QArith Floats List Bool.
From A2L Require Import Lib.Limits Proofs.LimitsProofs.
Import ListNotations.

(* identity / table conversions and unresolved or coefficient-less methods: the raw range of the data type *)
Theorem C12_identity_and_table_kinds : forall d c,
  c = CNone \/ c = CIdentical \/ c = CTabIntp \/ c = CTabNointp \/ c = CTabVerb \/ c = CLinear None \/ c = CRatFunc None ->
  calc_compu_method_limits c d = get_datatype_limits d.
Proof. exact calc_identity_kinds. Qed.
Print Assumptions C12_identity_and_table_kinds.

(* LINEAR a*x+b: both raw endpoints are mapped through the conversion, swapped for a negative slope *)
Theorem C12_linear_both_signs : forall d a b,
  calc_compu_method_limits (CLinear (Some (a, b))) d =
  let '(lo, hi) := get_datatype_limits d in
  if (0 <=? a)%float then ((a * lo + b)%float, (a * hi + b)%float)
  else ((a * hi + b)%float, (a * lo + b)%float).
Proof. exact calc_linear. Qed.
Print Assumptions C12_linear_both_signs.

(* linear special case of RAT_FUNC, inverted, endpoints ordered *)
Theorem C12_ratfunc_linear_inverted : forall d b c f, (f =? 0)%float = false ->
  calc_compu_method_limits (CRatFunc (Some (0%float, b, c, 0%float, 0%float, f))) d =
  let '(lo, hi) := get_datatype_limits d in
  let g := fun y => (f * (y / b) - c / b)%float in
  if (g hi <? g lo)%float then (g hi, g lo) else (g lo, g hi).
Proof. exact calc_ratfunc_linear. Qed.
Print Assumptions C12_ratfunc_linear_inverted.

(* FORM and general RAT_FUNC are not evaluated: the widest range *)
Theorem C12_unevaluated_kinds : forall d c,
  c = CForm \/ (exists a b c0 d0 e f, c = CRatFunc (Some (a, b, c0, d0, e, f)) /\
                 ((a =? 0) && (d0 =? 0) && (e =? 0) && negb (f =? 0))%float = false) ->
  calc_compu_method_limits c d = ((- f64_max)%float, f64_max).
Proof. exact calc_unevaluated. Qed.
Print Assumptions C12_unevaluated_kinds.

(* On the property's grid (11 data types x 14 slopes of both signs 2^-20..2^20 x 9 offsets x 4 placements of the
   declared limits x {tolerant, tolerance-free} comparison) the float computation reports a limit error exactly
   when a declared limit lies outside the EXACT rational image of the raw range, whenever all values are finite
   and the declared limits are clearly (>= 1e-4 relative) inside or outside.  Finite domain, decided by vm_compute. *)
Theorem C12_linear_grid_agrees_with_exact_arithmetic :
  forall x, In x linear_cases -> linear_ok x = true.
Proof. exact linear_grid_forall. Qed.
Print Assumptions C12_linear_grid_agrees_with_exact_arithmetic.

Theorem C12_ratfunc_grid_agrees_with_exact_arithmetic :
  forall x, In x ratfunc_cases -> ratfunc_ok x = true.
Proof. exact ratfunc_grid_forall. Qed.
Print Assumptions C12_ratfunc_grid_agrees_with_exact_arithmetic.

Theorem C12_identity_grid_agrees_with_exact_arithmetic :
  forall x, In x ident_cases -> ident_ok x = true.
Proof. exact ident_grid_forall. Qed.
Print Assumptions C12_identity_grid_agrees_with_exact_arithmetic.

Theorem C12_unevaluated_never_error_on_grid :
  forall x, In x uneval_cases -> uneval_ok x = true.
Proof. exact uneval_grid_forall. Qed.
Print Assumptions C12_unevaluated_never_error_on_grid.

(* non-vacuity: number of grid points that are finite and clearly placed *)
Theorem C12_grid_nonvacuous :
  N.of_nat (length (filter linear_counted linear_cases)) = 10008%N /\
  N.of_nat (length (filter ratfunc_counted ratfunc_cases)) = 15908%N.
Proof. exact (conj linear_grid_counted ratfunc_grid_counted). Qed.
Print Assumptions C12_grid_nonvacuous.
