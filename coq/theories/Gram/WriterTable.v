(** What the shipped `fn stringify`, `impl PartialEq`, `fn new` and `impl PositionRestricted` of every
    generated type do, as recovered from specification.rs by tools/spec_from_generated.py, and the
    decidable check that this is exactly what the generic writer (Gram/Writer.v, which interprets the
    grammar) assumes: every parsed field is written exactly once, in parse order, with the writer
    function of its type and its own location slot; every tagged item is pushed with its own tag and
    block flag; comments are added iff the parser stores them; equality compares every data field. *)
From Coq Require Import String List Bool Arith.
From A2L Require Import Gram.Spec.
Import ListNotations.

Inductive wfn :=
| WInt | WFloat | WQuoted | WStr | WStrToString | WStructRef
| WArray (dim : nat) (item : wfn)
| WSeq (item : wfn).

Inductive wstep :=
| WField (field : string) (loc : option nat) (fn : wfn)
| WGroupBegin
| WTag (tag var : string) (is_block repeat : bool)
| WAddComments
| WAddGroup.

Record wentry := mkW { w_type : string; w_steps : list wstep; w_eq : list string }.

Fixpoint wfn_eqb (a b : wfn) : bool :=
  match a, b with
  | WInt, WInt | WFloat, WFloat | WQuoted, WQuoted | WStr, WStr | WStrToString, WStrToString | WStructRef, WStructRef => true
  | WArray n x, WArray m y => Nat.eqb n m && wfn_eqb x y
  | WSeq x, WSeq y => wfn_eqb x y
  | _, _ => false
  end.
Definition wstep_eqb (a b : wstep) : bool :=
  match a, b with
  | WField f l fn, WField g m gn => String.eqb f g && opt_eqb Nat.eqb l m && wfn_eqb fn gn
  | WGroupBegin, WGroupBegin | WAddComments, WAddComments | WAddGroup, WAddGroup => true
  | WTag t v b r, WTag t' v' b' r' => String.eqb t t' && String.eqb v v' && Bool.eqb b b' && Bool.eqb r r'
  | _, _ => false
  end.

Fixpoint expected_fn (t : fty) : wfn :=
  match t with
  | FInt _ => WInt
  | FDouble | FFloat => WFloat
  | FIdent => WStr
  | FString | FStringMax _ => WQuoted
  | FEnum _ => WStrToString
  | FStruct _ => WStructRef
  | FArray x n => WArray n (expected_fn x)
  | FSeq x _ => WSeq (expected_fn x)
  end.

Fixpoint expected_steps (its : list item) (loc : nat) (comments : bool) : list wstep :=
  match its with
  | [] => []
  | IField name ty :: r =>
      WField name (match ty with FStruct _ | FSeq (FStruct _) _ => None | _ => Some loc end) (expected_fn ty) :: expected_steps r (S loc) comments
  | ITagged _ _ titems :: r =>
      WGroupBegin :: map (fun ti => WTag (ti_tag ti) (ti_var ti) (ti_block ti) (ti_repeat ti)) titems ++
      (if comments then [WAddComments] else []) ++ WAddGroup :: expected_steps r loc comments
  end.

(* fields and tagged-item variables in declaration order: what `impl PartialEq` must compare *)
Fixpoint data_fields (its : list item) : list string :=
  match its with
  | [] => []
  | IField name _ :: r => name :: data_fields r
  | ITagged _ _ titems :: r => map ti_var titems ++ data_fields r
  end.

Fixpoint lookup_w (w : list wentry) (n : string) : option wentry :=
  match w with [] => None | e :: r => if String.eqb (w_type e) n then Some e else lookup_w r n end.

Definition type_consistent (w : list wentry) (t : tydef) : bool :=
  match t_kind t, t_special t with
  | KEnum, _ => true
  | _, Some _ => true       (* A2ml / IfData: hand-written, pinned token-for-token by the translator *)
  | _, None =>
      match lookup_w w (t_name t) with
      | None => false
      | Some e =>
          list_eqb wstep_eqb (w_steps e)
                   (expected_steps (t_items t) 0 (match t_kind t with KBlock => t_comments t | _ => false end)) &&
          list_eqb String.eqb (w_eq e) (data_fields (t_items t))
      end
  end.

Definition writer_consistent (s : spec) (w : list wentry) : bool := forallb (type_consistent w) s.
