(** The writer seen at token level.  [wtoks] lists the tokens (type and text) that the text produced by
    Gram/Writer.v consists of for an element without comments, include directives, A2ML and IF_DATA; it shares the
    group order ([group_order]) with the writer.  [reorder] is the value the parser is expected to rebuild from these
    tokens: the children of every tagged group regrouped in the order in which they were written.  [confb] is the
    executable well-formedness condition under which Proofs/RoundTripProofs.v proves that the parser does rebuild it.
    That the tokenizer cuts the written text into exactly [wtoks] is evaluated on every conforming subtree of every
    generated document (Run/RunLoad.v), not proved. *)
From Coq Require Import Ascii String List Bool NArith ZArith.
From A2L Require Import Base.StableSort Text.Escape Text.IntText Lex.Tokenizer Gram.Spec A2ml.Types Gram.PState Gram.Parser Gram.Writer.
Import ListNotations.
Local Open Scope N_scope.

Definition shape := (ttype * bytes)%type.
Definition shape_of (t : token) : shape := (tk_type t, tk_text t).
Definition begin_text : bytes := bytes_of "/begin".
Definition end_text : bytes := bytes_of "/end".
Definition lay0 : layout := mkLay 0 0 0 0 None.

(* layout, offsets and uids are what the round trip does not promise *)
Fixpoint erase (v : value) : value :=
  match v with
  | VScalar s _ => VScalar s 0
  | VList l => VList (map erase l)
  | VNode ty _ fields kids cms => VNode ty lay0 (map erase fields) (map (map erase) kids) cms
  | VIfData _ items valid => VIfData lay0 items valid
  end.

(* executable form of "this text is a well-formed token of this type" (Proofs/LexUnitsProofs.v: [token_text]) *)
Definition ident_textb (t : bytes) : bool :=
  match t with c :: _ => is_alpha c || aeq c "_" | [] => false end && forallb is_identchar t && negb (bytes_eqb t b_a2ml).
Definition number_textb (t : bytes) : bool :=
  match t with
  | c :: tl => (aeq c "-" || is_numchar c) && negb (is_alpha c || aeq c "_") && forallb is_numchar tl
  | [] => false
  end && negb (bytes_eqb t ["-"%char]) && negb (bytes_eqb t ["."%char]) && negb (bytes_eqb t ["0"%char; "x"%char]).
Definition token_textb (sh : shape) : bool :=
  match fst sh with
  | TIdentifier => ident_textb (snd sh)
  | TNumber => number_textb (snd sh)
  | TString => bytes_eqb (snd sh) (dq :: escape (unescape (strip_quotes (snd sh))) ++ [dq])
  | TBegin => bytes_eqb (snd sh) begin_text
  | TEnd => bytes_eqb (snd sh) end_text
  | TInclude | TComment => false
  end.

Definition is_blockb (td : tydef) : bool := match t_kind td with KBlock => true | _ => false end.
Definition simple_ty (ty : fty) : bool :=
  match ty with FStruct _ | FArray _ _ | FSeq _ _ => false | _ => true end.
Section TW.
  Variable S : spec.
  Variable posrs : list (string * posr).
  Variable ftab : list fentry.

  Definition scalar_toks (ty : fty) (v : value) : list shape :=
    match ty, v with
    | FInt t, VScalar (SInt z hex) _ => [(TNumber, add_integer_text t z hex)]
    | (FDouble | FFloat), VScalar (SFloat bits) _ => [(TNumber, float_text ftab bits)]
    | (FIdent | FEnum _), VScalar (SText s) _ => [(TIdentifier, s)]
    | (FString | FStringMax _), VScalar (SText s) _ => [(TString, quoted s)]
    | _, _ => []
    end.

  (* the children of one tagged group with the keys the writer sorts by; the payload is (index of the tagged item,
     the tagged item, the child) *)
  Definition entry := (nat * titem * value)%type.
  Definition kid_entries (titems : list titem) (mine : list (list value)) : list (ginfo entry) :=
    flat_map (fun p =>
       map (fun k => let l := layout_of k in
                     GTag (bytes_of (ti_tag (snd (fst p)))) (l_incfile l) (l_uid l) (l_line l) (l_so l) (l_eo l)
                          (ti_block (snd (fst p))) (fst (fst p), snd (fst p), k) (pos_restrict S posrs k)) (snd p))
      (combine (combine (seq 0 (length titems)) titems) mine).
  Definition payload (g : ginfo entry) : list entry :=
    match g with GTag _ _ _ _ _ _ _ x _ => [x] | GComment _ _ _ _ _ => [] end.
  Definition ordered_kids (titems : list titem) (mine : list (list value)) : list entry :=
    flat_map payload (group_order (kid_entries titems mine)).

  Definition kid_head (ti : titem) : shape :=
    if ti_block ti then (TBegin, begin_text) else (TIdentifier, bytes_of (ti_tag ti)).
  Definition kid_toks (ti : titem) (inner : list shape) : list shape :=
    if ti_block ti
    then (TBegin, begin_text) :: (TIdentifier, bytes_of (ti_tag ti)) :: inner ++ [(TEnd, end_text); (TIdentifier, bytes_of (ti_tag ti))]
    else (TIdentifier, bytes_of (ti_tag ti)) :: inner.

  Section Items.
    Variable w : value -> list shape.      (* tokens of a nested element, one level down *)
    Definition field_toks (ty : fty) (fv : value) : list shape :=
      match ty, fv with
      | FStruct _, _ => w fv
      | FArray t _, VList l => flat_map (scalar_toks t) l
      | FSeq (FStruct _) _, VList l => flat_map w l
      | FSeq t _, VList l => flat_map (scalar_toks t) l
      | _, _ => scalar_toks ty fv
      end.
    Definition group_toks (titems : list titem) (mine : list (list value)) : list shape :=
      flat_map (fun e : entry => kid_toks (snd (fst e)) (w (snd e))) (ordered_kids titems mine).
    Fixpoint items_toks (its : list item) (fields : list value) (kids : list (list value)) : list shape :=
      match its with
      | [] => []
      | IField _ ty :: r =>
          match fields with
          | fv :: fr => field_toks ty fv ++ items_toks r fr kids
          | [] => []
          end
      | ITagged _ _ titems :: r =>
          group_toks titems (firstn (length titems) kids) ++ items_toks r fields (skipn (length titems) kids)
      end.
  End Items.

  Fixpoint wtoks (fuel : nat) (v : value) {struct fuel} : list shape :=
    match fuel with
    | O => []
    | Datatypes.S f =>
        match v with
        | VNode ty _ fields kids _ =>
            match lookup_ty S ty with
            | Some td => match t_special td with
                         | None => items_toks (wtoks f) (t_items td) fields kids
                         | Some _ => []
                         end
            | None => []
            end
        | _ => []
        end
    end.

  (* ---------- what the parser rebuilds ---------- *)
  Section Re.
    Variable rec : value -> value.
    Definition place (kids : list (list value)) (e : entry) : list (list value) :=
      upd_nth kids (fst (fst e)) (fun l => if ti_repeat (snd (fst e)) then l ++ [rec (snd e)] else [rec (snd e)]).
    Definition regroup (titems : list titem) (mine : list (list value)) : list (list value) :=
      fold_left place (ordered_kids titems mine) (map (fun _ => []) titems).
    Definition re_field (ty : fty) (fv : value) : value :=
      match ty, fv with
      | FStruct _, _ => rec fv
      | FSeq (FStruct _) _, VList l => VList (map rec l)
      | _, _ => fv
      end.
    Fixpoint re_items (its : list item) (fields : list value) (kids : list (list value))
      : list value * list (list value) :=
      match its with
      | [] => ([], [])
      | IField _ ty :: r =>
          match fields with
          | fv :: fr => let '(fs, ks) := re_items r fr kids in (re_field ty fv :: fs, ks)
          | [] => ([], [])
          end
      | ITagged _ _ titems :: r =>
          let '(fs, ks) := re_items r fields (skipn (length titems) kids) in
          (fs, regroup titems (firstn (length titems) kids) ++ ks)
      end.
  End Re.

  Fixpoint reorder (fuel : nat) (v : value) {struct fuel} : value :=
    match fuel with
    | O => v
    | Datatypes.S f =>
        match v with
        | VNode ty lay fields kids cms =>
            match lookup_ty S ty with
            | Some td => let '(fs, ks) := re_items (reorder f) (t_items td) fields kids in VNode ty lay fs ks cms
            | None => v
            end
        | _ => v
        end
    end.

  (* ---------- the condition under which the round trip is proved ---------- *)
  Definition nonempty (s : bytes) : bool := match s with [] => false | _ => true end.
  Definition finite_bits (b : N) : bool := b mod 2 ^ 63 <? 0x7FF0000000000000.
  Definition double_ok (bits : N) : bool :=
    let text := float_text ftab bits in
    negb (starts_0x text) &&
    match find_fentry ftab text with
    | Some e => fe_ok e && finite_bits (fe_bits e) && (fe_bits e =? bits)
    | None => false
    end.
  Definition float_ok (bits : N) : bool :=
    let text := float_text ftab bits in
    match find_fentry ftab text with
    | Some e => fe_ok32 e && (finite_bits (fe_bits32 e) || starts_0x text) && (fe_bits32 e =? bits)
    | None => false
    end.

  Definition scalar_ok (ty : fty) (v : value) : bool :=
    match ty, v with
    | FInt t, VScalar (SInt z _) _ => in_range t z
    | FDouble, VScalar (SFloat bits) _ => double_ok bits
    | FFloat, VScalar (SFloat bits) _ => float_ok bits
    | FIdent, VScalar (SText s) _ => nonempty s
    | FEnum e, VScalar (SText s) _ =>
        nonempty s &&
        match lookup_ty S e with
        | Some td => match find_enumitem (t_enum td) s with Some _ => true | None => false end
        | None => false
        end
    | (FString | FStringMax _), VScalar (SText _) _ => true
    | _, _ => false
    end.

  (* can a value of this type start with a token of type [tk]?  ([true] when in doubt) *)
  Definition expects_simple (ty : fty) (tk : ttype) : bool :=
    match ty with
    | FInt _ | FDouble | FFloat => ttype_eqb tk TNumber
    | FIdent | FEnum _ => ttype_eqb tk TIdentifier
    | FString | FStringMax _ => ttype_eqb tk TString || ttype_eqb tk TIdentifier
    | _ => true
    end.
  Definition expects (ty : fty) (tk : ttype) : bool :=
    match ty with
    | FStruct s =>
        match lookup_ty S s with
        | Some td => match t_items td with IField _ t1 :: _ => expects_simple t1 tk | _ => true end
        | None => true
        end
    | _ => expects_simple ty tk
    end.
  Definition is_stop (stop : list string) (text : bytes) : bool := existsb (fun w => bytes_eqb (bytes_of w) text) stop.
  (* the token after a sequence ends it: it cannot start another element, or it is a stop word *)
  Definition stops (ty : fty) (stop : list string) (nxt : option shape) : bool :=
    match nxt with
    | None => true
    | Some (tk, text) =>
        negb (expects ty tk) ||
        (match ty with FIdent => true | _ => false end && ttype_eqb tk TIdentifier && is_stop stop text)
    end.
  Definition first_or (toks : list shape) (after : option shape) : option shape :=
    match toks with x :: _ => Some x | [] => after end.

  Definition struct_of (ty : fty) : option tydef :=
    match ty with FStruct s => lookup_ty S s | _ => None end.

  (* an enumeration named by the grammar exists *)
  Definition known_ty (ty : fty) : bool :=
    match ty with FEnum e => match lookup_ty S e with Some _ => true | None => false end | _ => true end.

  (* a struct referenced from a field: only plain scalar fields of known types, at least one *)
  Definition simple_struct (td : tydef) : bool :=
    match t_kind td with KStruct => true | _ => false end &&
    match t_special td with None => true | Some _ => false end &&
    match t_items td with [] => false | _ => true end &&
    forallb (fun it => match it with IField _ ty => simple_ty ty && known_ty ty | ITagged _ _ _ => false end) (t_items td).

  (* a value of a simple struct: one plain scalar per field *)
  Fixpoint struct_fields_ok (its : list item) (fields : list value) : bool :=
    match its, fields with
    | [], [] => true
    | IField _ ty :: r, fv :: fr => scalar_ok ty fv && struct_fields_ok r fr
    | _, _ => false
    end.
  Definition struct_ok (td : tydef) (v : value) : bool :=
    simple_struct td &&
    match v with
    | VNode ty _ fields kids cms =>
        String.eqb ty (t_name td) &&
        match lookup_ty S ty with Some td' => tydef_eqb td' td | None => false end &&
        match kids with [] => true | _ => false end && match cms with [] => true | _ => false end &&
        struct_fields_ok (t_items td) fields
    | _ => false
    end.

  Definition not_stopword (stop : list string) (v : value) : bool :=
    match v with VScalar (SText s) _ => negb (is_stop stop s) | _ => true end.

  Definition has_toks (w : value -> list shape) (x : value) : bool := match w x with [] => false | _ => true end.
  (* [w]: the tokens of a nested struct value *)
  Definition field_ok (w : value -> list shape) (ty : fty) (fv : value) (nxt : option shape) : bool :=
    match ty, fv with
    | FStruct s, _ => match lookup_ty S s with Some td => struct_ok td fv && has_toks w fv | None => false end
    | FArray t n, VList l => simple_ty t && Nat.eqb (length l) n && forallb (scalar_ok t) l
    | FSeq (FStruct s) stop, VList l =>
        match lookup_ty S s with
        | Some td => simple_struct td && forallb (fun x => struct_ok td x && has_toks w x) l && stops (FStruct s) stop nxt
        | None => false
        end
    | FSeq t stop, VList l =>
        simple_ty t && known_ty t && forallb (scalar_ok t) l && forallb (not_stopword stop) l && stops t stop nxt
    | FArray _ _, _ | FSeq _ _, _ => false
    | _, _ => scalar_ok ty fv
    end.

  Fixpoint tags_distinct (titems : list titem) : bool :=
    match titems with
    | [] => true
    | ti :: r => negb (existsb (fun tj => String.eqb (ti_tag tj) (ti_tag ti)) r) && tags_distinct r
    end.
  (* required single items must be present *)
  Fixpoint mult_ok (titems : list titem) (kids : list (list value)) : bool :=
    match titems, kids with
    | ti :: ir, k :: kr =>
        (negb (ti_required ti) || ti_repeat ti || match k with [] => false | _ => true end) && mult_ok ir kr
    | _, _ => true
    end.

  Section Conf.
    Variable conf_rec : tydef -> value -> option shape -> bool.    (* a nested element, one level down *)
    Definition entry_ok (e : entry) (nxt : option shape) : bool :=
      let ti := snd (fst e) in
      match lookup_ty S (ti_type ti) with
      | Some td =>
          match t_special td with None => true | Some _ => false end &&
          Bool.eqb (ti_block ti) (is_blockb td) &&
          match l_incfile (layout_of (snd e)) with None => true | Some _ => false end &&
          conf_rec td (snd e) nxt
      | None => false
      end.
    Fixpoint entries_ok (es : list entry) (after : option shape) : bool :=
      match es with
      | [] => true
      | e :: r =>
          entry_ok e (match r with e2 :: _ => Some (kid_head (snd (fst e2))) | [] => after end) && entries_ok r after
      end.
    (* [after]: the token that follows the items of this element *)
    Fixpoint items_ok (w : value -> list shape) (is_block : bool) (its : list item) (fields : list value) (kids : list (list value))
             (after : option shape) : bool :=
      match its with
      | [] => match fields, kids with [], [] => true | _, _ => false end
      | IField _ ty :: r =>
          match fields with
          | fv :: fr => field_ok w ty fv (first_or (items_toks w r fr kids) after) && items_ok w is_block r fr kids after
          | [] => false
          end
      | ITagged union last titems :: r =>
          negb union && is_block && match r with [] => true | _ => false end &&
          match fields with [] => true | _ => false end &&
          Nat.eqb (length kids) (length titems) && tags_distinct titems &&
          entries_ok (ordered_kids titems kids) after &&
          mult_ok titems (regroup (fun x => x) titems kids)
      end.
  End Conf.

  Fixpoint confb (fuel : nat) (td : tydef) (v : value) (nxt : option shape) {struct fuel} : bool :=
    match fuel with
    | O => false
    | Datatypes.S f =>
        match v with
        | VNode ty _ fields kids cms =>
            String.eqb ty (t_name td) &&
            match lookup_ty S ty with Some td' => tydef_eqb td' td | None => false end &&
            match t_special td with None => true | Some _ => false end &&
            match t_kind td with KEnum => false | _ => true end &&
            match cms with [] => true | _ => false end &&
            items_ok (confb f) (wtoks f) (is_blockb td) (t_items td) fields kids
                     (if is_blockb td then Some (TEnd, end_text) else nxt)
        | _ => false
        end
    end.
End TW.

(* ---------- the offsets the writer uses, token by token, aligned with [wtoks] (None: a token that is written directly behind its
   predecessor: the tag behind /begin and /end) ---------- *)
Definition scalar_offs (ty : fty) (v : value) : list (option N) :=
  match ty, v with
  | FInt _, VScalar (SInt _ _) off => [Some off]
  | (FDouble | FFloat), VScalar (SFloat _) off => [Some off]
  | (FIdent | FEnum _), VScalar (SText _) off => [Some off]
  | (FString | FStringMax _), VScalar (SText _) off => [Some off]
  | _, _ => []
  end.
Definition closing_offs (isb : bool) (v : value) : list (option N) :=
  if isb then [Some (l_eo (layout_of v)); None] else [].
Definition kid_offs (ti : titem) (k : value) (inner : list (option N)) : list (option N) :=
  if ti_block ti then Some (l_so (layout_of k)) :: None :: inner ++ [Some (l_eo (layout_of k)); None]
  else Some (l_so (layout_of k)) :: inner.
Section Offs.
  Variable S : spec.
  Variable posrs : list (string * posr).
  Section Items.
    Variable wo : value -> list (option N).
    Definition field_offs (ty : fty) (fv : value) : list (option N) :=
      match ty, fv with
      | FStruct _, _ => wo fv
      | FArray t _, VList l => flat_map (scalar_offs t) l
      | FSeq (FStruct _) _, VList l => flat_map wo l
      | FSeq t _, VList l => flat_map (scalar_offs t) l
      | _, _ => scalar_offs ty fv
      end.
    Definition group_offs (titems : list titem) (mine : list (list value)) : list (option N) :=
      flat_map (fun e : entry => kid_offs (snd (fst e)) (snd e) (wo (snd e))) (ordered_kids S posrs titems mine).
    Fixpoint items_offs (its : list item) (fields : list value) (kids : list (list value)) : list (option N) :=
      match its with
      | [] => []
      | IField _ ty :: r =>
          match fields with
          | fv :: fr => field_offs ty fv ++ items_offs r fr kids
          | [] => []
          end
      | ITagged _ _ titems :: r =>
          group_offs titems (firstn (length titems) kids) ++ items_offs r fields (skipn (length titems) kids)
      end.
  End Items.
  Fixpoint woffs (fuel : nat) (v : value) {struct fuel} : list (option N) :=
    match fuel with
    | O => []
    | Datatypes.S f =>
        match v with
        | VNode ty _ fields kids _ =>
            match lookup_ty S ty with
            | Some td => match t_special td with
                         | None => items_offs (woffs f) (t_items td) fields kids
                         | Some _ => []
                         end
            | None => []
            end
        | _ => []
        end
    end.
End Offs.

