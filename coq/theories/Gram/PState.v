(** Model of parser.rs ParserState: the token cursor (a zipper over the token list), the
    bookkeeping fields and every primitive the generated parsers call.  The monad [M] is
    state + result; a Rust `?` is [bind]; the mutable state survives an error (needed for the
    "try, and restore the cursor on failure" sites, which keep log entries and consumed ids). *)
From Coq Require Import Ascii String List Bool NArith ZArith.
From A2L Require Import Text.Escape Text.IntText Lex.Tokenizer Gram.Spec A2ml.Types.
Import ListNotations.
Local Open Scope N_scope.

Record ctx := mkCtx { c_element : bytes; c_fileid : nat; c_line : N }.

(* a diagnostic: ParserError variant, error_line (None for the two variants that carry no position),
   file id of the context (index into the file name table) and the variant's most specific text *)
Record diag := mkDiag { d_variant : string; d_line : option N; d_fileid : nat; d_key : bytes }.

(* oracle for Rust's float text conversions: per Number lexeme the f64 / f32 it parses to (bit patterns)
   and the texts "{}" and "{:e}" print for that value *)
Record fentry := mkFe {
  fe_text : bytes; fe_ok : bool; fe_bits : N; fe_plain : bytes; fe_exp : bytes;
  fe_ok32 : bool; fe_bits32 : N; fe_plain32 : bytes; fe_exp32 : bytes }.

Record pstate := mkPS {
  ps_before : list token;      (* consumed tokens, reversed: head = tokens[pos-1] *)
  ps_after : list token;       (* tokens[pos..] *)
  ps_first_line : option N;    (* tokens[0].line *)
  ps_last : N;                 (* last_token_position *)
  ps_seq : N;                  (* sequential_id *)
  ps_log : list diag;          (* log_msgs, reversed *)
  ps_strict : bool;
  ps_ver : version;
  ps_nfiles : nat;             (* filenames.len() *)
  ps_ftab : list fentry;
  ps_pos : nat;                (* token_cursor.pos = length ps_before *)
  ps_kept : option nat;        (* kept_comment_pos *)
  ps_specs : list a2mlty;      (* a2mlspec: the built-in specification, then the one of the A2ML block *)
  ps_a2ml : list (bytes * (option a2mlty * bytes))
                               (* oracle for a2ml::parse_a2ml: text of an A2ML block -> type specification | error message *)
}.

Inductive R (A : Type) := ROk (a : A) | RErr (d : diag) | RPanic (site : string) | RFuel.
Arguments ROk {A}. Arguments RErr {A}. Arguments RPanic {A}. Arguments RFuel {A}.
Definition M (A : Type) := pstate -> R A * pstate.

Definition ret {A} (a : A) : M A := fun s => (ROk a, s).
Definition fail {A} (d : diag) : M A := fun s => (RErr d, s).
Definition panic {A} (site : string) : M A := fun s => (RPanic site, s).
Definition out_of_fuel {A} : M A := fun s => (RFuel, s).
Definition bindM {A B} (m : M A) (f : A -> M B) : M B :=
  fun s => match m s with
           | (ROk a, s') => f a s'
           | (RErr d, s') => (RErr d, s')
           | (RPanic x, s') => (RPanic x, s')
           | (RFuel, s') => (RFuel, s')
           end.
Notation "x <-- m ;; k" := (bindM m (fun x => k)) (at level 61, m at next level, right associativity).
Notation "m ;;; k" := (bindM m (fun _ => k)) (at level 61, right associativity).
Definition get : M pstate := fun s => (ROk s, s).
Definition put (s : pstate) : M unit := fun _ => (ROk tt, s).

(* run [m]; an error becomes a value (the Rust code inspects a Result instead of using `?`) *)
Definition try {A} (m : M A) : M (option A * option diag) :=
  fun s => match m s with
           | (ROk a, s') => (ROk (Some a, None), s')
           | (RErr d, s') => (ROk (None, Some d), s')
           | (RPanic x, s') => (RPanic x, s')
           | (RFuel, s') => (RFuel, s')
           end.

(* ---------- state updates ---------- *)
Definition upd_cursor (s : pstate) (b a : list token) (pos : nat) : pstate :=
  mkPS b a (ps_first_line s) (ps_last s) (ps_seq s) (ps_log s) (ps_strict s) (ps_ver s) (ps_nfiles s) (ps_ftab s) pos (ps_kept s) (ps_specs s) (ps_a2ml s).
Definition upd_kept (s : pstate) (k : option nat) : pstate :=
  mkPS (ps_before s) (ps_after s) (ps_first_line s) (ps_last s) (ps_seq s) (ps_log s) (ps_strict s) (ps_ver s) (ps_nfiles s) (ps_ftab s) (ps_pos s) k (ps_specs s) (ps_a2ml s).
Definition upd_last (s : pstate) (l : N) : pstate :=
  mkPS (ps_before s) (ps_after s) (ps_first_line s) l (ps_seq s) (ps_log s) (ps_strict s) (ps_ver s) (ps_nfiles s) (ps_ftab s) (ps_pos s) (ps_kept s) (ps_specs s) (ps_a2ml s).
Definition upd_seq (s : pstate) (n : N) : pstate :=
  mkPS (ps_before s) (ps_after s) (ps_first_line s) (ps_last s) n (ps_log s) (ps_strict s) (ps_ver s) (ps_nfiles s) (ps_ftab s) (ps_pos s) (ps_kept s) (ps_specs s) (ps_a2ml s).
Definition upd_log (s : pstate) (l : list diag) : pstate :=
  mkPS (ps_before s) (ps_after s) (ps_first_line s) (ps_last s) (ps_seq s) l (ps_strict s) (ps_ver s) (ps_nfiles s) (ps_ftab s) (ps_pos s) (ps_kept s) (ps_specs s) (ps_a2ml s).
Definition upd_ver (s : pstate) (v : version) : pstate :=
  mkPS (ps_before s) (ps_after s) (ps_first_line s) (ps_last s) (ps_seq s) (ps_log s) (ps_strict s) v (ps_nfiles s) (ps_ftab s) (ps_pos s) (ps_kept s) (ps_specs s) (ps_a2ml s).

Definition init_state (toks : list token) (strict : bool) (nfiles : nat) (ftab : list fentry) : pstate :=
  mkPS [] toks (match toks with t :: _ => Some (tk_line t) | [] => None end) 0 0 [] strict V171 nfiles ftab O None [] [].
Definition init_state_a2ml (toks : list token) (strict : bool) (nfiles : nat) (ftab : list fentry)
           (specs : list a2mlty) (oracle : list (bytes * (option a2mlty * bytes))) : pstate :=
  mkPS [] toks (match toks with t :: _ => Some (tk_line t) | [] => None end) 0 0 [] strict V171 nfiles ftab O None specs oracle.
Definition upd_specs (s : pstate) (l : list a2mlty) : pstate :=
  mkPS (ps_before s) (ps_after s) (ps_first_line s) (ps_last s) (ps_seq s) (ps_log s) (ps_strict s) (ps_ver s) (ps_nfiles s)
       (ps_ftab s) (ps_pos s) (ps_kept s) l (ps_a2ml s).
Definition get_specs : M (list a2mlty) := fun s => (ROk (ps_specs s), s).
Definition push_spec (t : a2mlty) : M unit := fun s => (ROk tt, upd_specs s (ps_specs s ++ [t])).

(* ---------- errors ---------- *)
(* every constructor reads filenames[context.fileid] (index panic if out of range) and last_token_position *)
Definition mk_diag (variant : string) (c : ctx) (key : bytes) : M diag :=
  fun s => if Nat.ltb (c_fileid c) (ps_nfiles s)
           then (ROk (mkDiag variant (Some (ps_last s)) (c_fileid c) key), s)
           else (RPanic "parser.rs: filenames[context.fileid]", s).

Definition log_warning (d : diag) : M unit := fun s => (ROk tt, upd_log s (d :: ps_log s)).
Definition error_or_log (d : diag) : M unit :=
  fun s => if ps_strict s then (RErr d, s) else (ROk tt, upd_log s (d :: ps_log s)).

(* ---------- the cursor ---------- *)
Definition get_tokenpos : M nat := fun s => (ROk (ps_pos s), s).

Fixpoint move_back (n : nat) (b a : list token) : list token * list token :=
  match n, b with
  | S n', t :: b' => move_back n' b' (t :: a)
  | _, _ => (b, a)
  end.
Fixpoint move_fwd (n : nat) (b a : list token) : list token * list token :=
  match n, a with
  | S n', t :: a' => move_fwd n' (t :: b) a'
  | _, _ => (b, a)
  end.
(* set_tokenpos: any position may be stored; the generated code only restores earlier positions *)
Definition set_tokenpos (newpos : nat) : M unit :=
  fun s => let pos := ps_pos s in
           let '(b, a) := if Nat.leb newpos pos then move_back (pos - newpos) (ps_before s) (ps_after s)
                          else move_fwd (newpos - pos) (ps_before s) (ps_after s) in
           (ROk tt, upd_cursor s b a (length b)).

Definition peek_token : M (option token) :=
  fun s => (ROk (match ps_after s with t :: _ => Some t | [] => None end), s).

Definition eof_diag (c : ctx) : M diag := mk_diag "UnexpectedEOF" c (c_element c).

Definition get_token (c : ctx) : M token :=
  fun s => match ps_after s with
           | t :: a => (ROk t, upd_last (upd_cursor s (t :: ps_before s) a (S (ps_pos s))) (tk_line t))
           | [] => bindM (eof_diag c) fail s
           end.

(* token_cursor.next() without touching last_token_position *)
Definition cursor_next : M unit :=
  fun s => match ps_after s with
           | t :: a => (ROk tt, upd_cursor s (t :: ps_before s) a (S (ps_pos s)))
           | [] => (ROk tt, s)
           end.

(* TokenIter::back: pos -= 1 (usize underflow panics in a debug build) *)
Definition undo_get_token : M unit :=
  fun s => match ps_before s with
           | t :: b => (ROk tt, upd_cursor s b (t :: ps_after s) (pred (ps_pos s)))
           | [] => (RPanic "parser.rs: TokenIter::back at position 0", s)
           end.

(* get_line_offset: u32 subtraction panics on underflow in a debug build.
   The previous token is the nearest preceding token that is written again: comments that are not stored
   (not handed out by get_next_tag_or_comment to a block) are skipped. *)
Definition opt_nat_eqb (o : option nat) (n : nat) : bool :=
  match o with Some k => Nat.eqb k n | None => false end.

Fixpoint find_prev (l : list token) (idx : nat) (kept : option nat) : option (token * nat) :=
  match l with
  | [] => None
  | t :: r =>
      if Nat.ltb 0 idx && ttype_eqb (tk_type t) TComment && negb (opt_nat_eqb kept idx)
      then find_prev r (pred idx) kept
      else Some (t, idx)
  end.

Definition get_line_offset : M N :=
  fun s => match ps_before s, ps_after s with
           | cur :: (_ :: _) as before_tail, _ :: _ =>
               match find_prev before_tail (ps_pos s - 2) (ps_kept s) with
               | None => (RPanic "parser.rs: get_line_offset: tokens[prev_pos]", s)
               | Some (prev, prev_pos) =>
                   if ttype_eqb (tk_type prev) TComment && negb (opt_nat_eqb (ps_kept s) prev_pos) then
                     (* only comments that are not stored stand in front: this is the first token that is written *)
                     if 1 <=? tk_line cur then (ROk (tk_line cur - 1), s)
                     else (RPanic "parser.rs: get_line_offset: cur_line - 1", s)
                   else
                     let prev_line :=
                       if opt_nat_eqb (ps_kept s) prev_pos then tk_line prev + count_newlines (tk_text prev)
                       else tk_line prev in
                     if Nat.eqb (tk_fileid prev) (tk_fileid cur) then
                       if prev_line <=? tk_line cur then (ROk (tk_line cur - prev_line), s)
                       else (RPanic "parser.rs: get_line_offset: cur_line - prev_line", s)
                     else (ROk 2, s)
               end
           | _, _ =>
               match ps_first_line s with
               | Some l => if 1 <=? l then (ROk (l - 1), s) else (RPanic "parser.rs: get_line_offset: tokens[0].line - 1", s)
               | None => (RPanic "parser.rs: get_line_offset: tokens[0]", s)
               end
           end.

Definition get_next_id : M N := fun s => (ROk (ps_seq s + 1), upd_seq s (ps_seq s + 1)).

(* get_incfilename: Some(display name) for fileid in 1..filenames.len(); modelled by the file id *)
Definition get_incfilename (fileid : nat) : M (option nat) :=
  fun s => (ROk (if Nat.eqb fileid 0 || Nat.leb (ps_nfiles s) fileid then None else Some fileid), s).

Definition ctx_from_token (text : bytes) (t : token) : ctx := mkCtx text (tk_fileid t) (tk_line t).

Definition ttype_name (t : ttype) : string :=
  match t with
  | TIdentifier => "Identifier" | TBegin => "Begin" | TEnd => "End" | TInclude => "Include"
  | TString => "String" | TNumber => "Number" | TComment => "Comment"
  end.

(* expect_token: skips comments *)
Fixpoint expect_loop (fuel : nat) (c : ctx) (ty : ttype) : M token :=
  match fuel with
  | O => out_of_fuel
  | S f =>
      t <-- get_token c ;;
      if ttype_eqb (tk_type t) TComment then expect_loop f c ty
      else if ttype_eqb (tk_type t) ty then ret t
      else (d <-- mk_diag "UnexpectedTokenType" c (tk_text t) ;; fail d)
  end.
Definition expect_token (c : ctx) (ty : ttype) : M token :=
  fun s => expect_loop (S (length (ps_after s))) c ty s.

Definition first_is_digit (text : bytes) : R bool :=
  match text with
  | ch :: _ => ROk (is_digit ch)
  | [] => RPanic "parser.rs: get_identifier: text.as_bytes()[0]"
  end.

Definition MAX_IDENT : nat := 1024.

Definition get_identifier (c : ctx) : M bytes :=
  t <-- expect_token c TIdentifier ;;
  let text := tk_text t in
  match first_is_digit text with
  | ROk dg =>
      (if dg || Nat.ltb MAX_IDENT (length text)
       then (d <-- mk_diag "InvalidIdentifier" c text ;; error_or_log d)
       else ret tt) ;;;
      ret text
  | _ => panic "parser.rs: get_identifier: text.as_bytes()[0]"
  end.

(* strip the surrounding quotes: text[1..len-1] when the text has >= 2 bytes, starts with a quote and ends with one
   (a String token of the tokenizer always does; the raw text of an A2ML block, which is a String token too, may not) *)
Definition strip_quotes (text : bytes) : bytes :=
  match text with
  | q :: r => if aeq q dq && Nat.leb 2 (length text) && aeq (last r "a"%char) dq then removelast r else text
  | [] => text
  end.

Definition get_string (c : ctx) : M bytes :=
  pk <-- peek_token ;;
  match pk with
  | Some t =>
      if ttype_eqb (tk_type t) TIdentifier then
        text <-- get_identifier c ;;
        d <-- mk_diag "UnexpectedTokenType" c (tk_text t) ;;
        error_or_log d ;;;
        ret text
      else
        t' <-- expect_token c TString ;;
        ret (unescape (strip_quotes (tk_text t')))
  | None =>
      t' <-- expect_token c TString ;;
      ret (unescape (strip_quotes (tk_text t')))
  end.

Definition get_string_maxlen (c : ctx) (maxlen : nat) : M bytes :=
  text <-- get_string c ;;
  (if Nat.ltb maxlen (length text) then (d <-- mk_diag "StringTooLong" c text ;; error_or_log d) else ret tt) ;;;
  ret text.

Definition get_integer (t : ity) (c : ctx) : M (Z * bool) :=
  tok <-- expect_token c TNumber ;;
  match get_integer_text t (tk_text tok) with
  | Some r => ret r
  | None => d <-- mk_diag "MalformedNumber" c (tk_text tok) ;; fail d
  end.

Fixpoint find_fentry (tab : list fentry) (text : bytes) : option fentry :=
  match tab with
  | [] => None
  | e :: r => if bytes_eqb (fe_text e) text then Some e else find_fentry r text
  end.

(* get_double: the f64 as bit pattern.  Hex literals are converted from u64 (modelled exactly);
   decimal literals go through Rust's str::parse::<f64> (oracle table) *)
Definition starts_0x (text : bytes) : bool := is_hex_prefixed text.
Definition get_double (c : ctx) : M N :=
  tok <-- expect_token c TNumber ;;
  let text := tk_text tok in
  if starts_0x text then
    match parse_u64_hex (skipn 2 text) with
    | Some u => ret (f64_bits_of_u64 u)
    | None => d <-- mk_diag "MalformedNumber" c text ;; fail d
    end
  else
    fun s => match find_fentry (ps_ftab s) text with
             | Some e => if fe_ok e && (fe_bits e mod 2 ^ 63 <? 0x7FF0000000000000) then (ROk (fe_bits e), s)
                         else bindM (mk_diag "MalformedNumber" c text) fail s    (* not a number, or not finite *)
             | None => (RPanic "float oracle: lexeme missing from the table", s)
             end.

(* get_float: f32, represented by the bit pattern of its widening to f64 *)
Definition get_float (c : ctx) : M N :=
  tok <-- expect_token c TNumber ;;
  let text := tk_text tok in
  fun s => match find_fentry (ps_ftab s) text with
           | Some e => if fe_ok32 e && ((fe_bits32 e mod 2 ^ 63 <? 0x7FF0000000000000) || starts_0x text)
                       then (ROk (fe_bits32 e), s)
                       else bindM (mk_diag "MalformedNumber" c text) fail s
           | None => (RPanic "float oracle: lexeme missing from the table", s)
           end.

(* ---------- versions ---------- *)
Definition check_block_version_lower (c : ctx) (tag : bytes) (min_ver : version) : M unit :=
  fun s => if version_ltb (ps_ver s) min_ver
           then bindM (mk_diag "BlockRefTooNew" c tag) error_or_log s else (ROk tt, s).
Definition check_block_version_upper (c : ctx) (tag : bytes) (max_ver : version) : M unit :=
  fun s => if version_ltb max_ver (ps_ver s)
           then bindM (mk_diag "BlockRefDeprecated" c tag) log_warning s else (ROk tt, s).
Definition check_enumitem_version_lower (c : ctx) (tag : bytes) (min_ver : version) : M unit :=
  fun s => if version_ltb (ps_ver s) min_ver
           then bindM (mk_diag "EnumRefTooNew" c tag) error_or_log s else (ROk tt, s).
Definition check_enumitem_version_upper (c : ctx) (tag : bytes) (max_ver : version) : M unit :=
  fun s => if version_ltb max_ver (ps_ver s)
           then bindM (mk_diag "EnumRefDeprecated" c tag) log_warning s else (ROk tt, s).

Definition require_block (tag : bytes) (is_block : bool) (c : ctx) : M unit :=
  if is_block then ret tt else (d <-- mk_diag "IncorrectBlockError" c tag ;; fail d).
Definition require_keyword (tag : bytes) (is_block : bool) (c : ctx) : M unit :=
  if is_block then (d <-- mk_diag "IncorrectKeywordError" c tag ;; fail d) else ret tt.
Definition handle_multiplicity_error (c : ctx) (tag : bytes) (is_error : bool) : M unit :=
  if is_error then (d <-- mk_diag "InvalidMultiplicityTooMany" c tag ;; error_or_log d) else ret tt.

(* ---------- get_next_tag_or_comment ---------- *)
Inductive block_content :=
| BCBlock (t : token) (is_block : bool) (line_offset : N)
| BCComment (t : token) (line_offset : N)
| BCNone.

Definition get_next_tag_or_comment (c : ctx) : M block_content :=
  tokenpos <-- get_tokenpos ;;
  pk <-- peek_token ;;
  match pk with
  | Some t =>
      if ttype_eqb (tk_type t) TComment then
        cursor_next ;;; off <-- get_line_offset ;;
        (if bytes_eqb (c_element c) (list_ascii_of_string "A2L_FILE") then ret tt
         else (fun s => (ROk tt, upd_kept s (Some tokenpos)))) ;;;
        ret (BCComment t off)
      else if ttype_eqb (tk_type t) TBegin then
        get_token c ;;;
        off <-- get_line_offset ;;
        r <-- try (expect_token c TIdentifier) ;;
        match r with
        | (Some tag, _) => ret (BCBlock tag true off)
        | (None, Some d) => set_tokenpos tokenpos ;;; fail d
        | (None, None) => panic "unreachable"
        end
      else
        r <-- try (expect_token c TIdentifier) ;;
        (* the offset is evaluated after expect_token, whatever its outcome *)
        off <-- get_line_offset ;;
        match r with
        | (Some tag, _) => ret (BCBlock tag false off)
        | (None, _) => set_tokenpos tokenpos ;;; ret BCNone
        end
  | None =>
      r <-- try (expect_token c TIdentifier) ;;
      off <-- get_line_offset ;;
      match r with
      | (Some tag, _) => ret (BCBlock tag false off)
      | (None, _) => set_tokenpos tokenpos ;;; ret BCNone
      end
  end.

(* ---------- handle_unknown_taggedstruct_tag ---------- *)
Fixpoint mem_bytes (x : bytes) (l : list bytes) : bool :=
  match l with [] => false | y :: r => bytes_eqb x y || mem_bytes x r end.

Fixpoint unknown_loop (fuel : nat) (c errc : ctx) (item_tag : bytes) (item_is_block : bool)
         (stoplist : list bytes) (balance : Z) : M unit :=
  match fuel with
  | O => out_of_fuel
  | S f =>
      t <-- get_token c ;;
      let text := tk_text t in
      match tk_type t with
      | TBegin => unknown_loop f c errc item_tag item_is_block stoplist (balance + 1)%Z
      | TEnd =>
          let balance := (balance - 1)%Z in
          if (balance =? -1)%Z then undo_get_token
          else unknown_loop f c errc item_tag item_is_block stoplist balance
      | TIdentifier =>
          if item_is_block then
            if (balance =? 0)%Z then
              if bytes_eqb text item_tag then ret tt
              else (d <-- mk_diag "IncorrectEndTag" errc text ;; fail d)
            else unknown_loop f c errc item_tag item_is_block stoplist balance
          else
            if ((balance =? 0) || (balance =? 1))%Z && mem_bytes text stoplist then
              undo_get_token ;;; (if (balance =? 1)%Z then undo_get_token else ret tt)
            else unknown_loop f c errc item_tag item_is_block stoplist balance
      | _ =>
          if item_is_block && (balance =? 0)%Z then (d <-- mk_diag "IncorrectEndTag" errc text ;; fail d)
          else unknown_loop f c errc item_tag item_is_block stoplist balance
      end
  end.

Definition handle_unknown_taggedstruct_tag (c : ctx) (item_tag : bytes) (item_is_block : bool)
           (stoplist : list bytes) : M unit :=
  d <-- mk_diag "UnknownSubBlock" c item_tag ;;
  error_or_log d ;;;
  t0 <-- get_token c ;;
  undo_get_token ;;;
  let errc := ctx_from_token (tk_text t0) t0 in
  fun s => unknown_loop (S (length (ps_after s))) c errc item_tag item_is_block stoplist
                        (if item_is_block then 1 else 0)%Z s.
