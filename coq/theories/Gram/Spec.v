(** The grammar description: one value of type [spec] describes every block, keyword,
    sequence struct and enumeration of the A2L grammar.  The concrete grammars (recovered from
    the shipped generated code, from the in-tree DSL through the in-tree DSL parser, and from
    the frozen reference copy of the DSL) are regenerated into Gen/ on every run. *)
From Coq Require Import String List Bool Arith.
Import ListNotations.

Inductive ity := I8 | I16 | I32 | I64 | U8 | U16 | U32 | U64.
Inductive version := V150 | V151 | V160 | V161 | V170 | V171.

Inductive fty :=
| FInt (t : ity)
| FDouble
| FFloat
| FIdent
| FString
| FStringMax (n : nat)
| FEnum (e : string)
| FStruct (s : string)
| FArray (t : fty) (n : nat)
| FSeq (t : fty) (stop : list string).

Record titem := mkTitem {
  ti_tag : string; ti_type : string; ti_var : string;
  ti_block : bool; ti_repeat : bool; ti_named : option bool; ti_required : bool;
  ti_vmin : option version; ti_vmax : option version }.

Inductive item :=
| IField (name : string) (ty : fty)
| ITagged (union : bool) (last_in_block : bool) (items : list titem).

Inductive tkind := KBlock | KKeyword | KStruct | KEnum.

Record enumitem := mkEnumItem { ei_tag : string; ei_variant : string; ei_vmin : option version; ei_vmax : option version }.

Record tydef := mkTy {
  t_name : string; t_kind : tkind; t_special : option string;
  t_items : list item; t_comments : bool; t_enum : list enumitem }.

Definition spec := list tydef.

(* ---------- decidable equality (closed obligations compare whole grammars) ---------- *)
Definition ity_eqb (a b : ity) : bool :=
  match a, b with
  | I8, I8 | I16, I16 | I32, I32 | I64, I64 | U8, U8 | U16, U16 | U32, U32 | U64, U64 => true
  | _, _ => false
  end.
Definition version_eqb (a b : version) : bool :=
  match a, b with
  | V150, V150 | V151, V151 | V160, V160 | V161, V161 | V170, V170 | V171, V171 => true
  | _, _ => false
  end.
Definition opt_eqb {A} (f : A -> A -> bool) (a b : option A) : bool :=
  match a, b with Some x, Some y => f x y | None, None => true | _, _ => false end.
Fixpoint list_eqb {A} (f : A -> A -> bool) (a b : list A) : bool :=
  match a, b with
  | [], [] => true
  | x :: r, y :: s => f x y && list_eqb f r s
  | _, _ => false
  end.
Fixpoint fty_eqb (a b : fty) : bool :=
  match a, b with
  | FInt x, FInt y => ity_eqb x y
  | FDouble, FDouble | FFloat, FFloat | FIdent, FIdent | FString, FString => true
  | FStringMax n, FStringMax m => Nat.eqb n m
  | FEnum x, FEnum y | FStruct x, FStruct y => String.eqb x y
  | FArray x n, FArray y m => fty_eqb x y && Nat.eqb n m
  | FSeq x s, FSeq y t => fty_eqb x y && list_eqb String.eqb s t
  | _, _ => false
  end.
Definition titem_eqb (a b : titem) : bool :=
  String.eqb (ti_tag a) (ti_tag b) && String.eqb (ti_type a) (ti_type b) && String.eqb (ti_var a) (ti_var b) &&
  Bool.eqb (ti_block a) (ti_block b) && Bool.eqb (ti_repeat a) (ti_repeat b) &&
  opt_eqb Bool.eqb (ti_named a) (ti_named b) && Bool.eqb (ti_required a) (ti_required b) &&
  opt_eqb version_eqb (ti_vmin a) (ti_vmin b) && opt_eqb version_eqb (ti_vmax a) (ti_vmax b).
Definition item_eqb (a b : item) : bool :=
  match a, b with
  | IField n t, IField m u => String.eqb n m && fty_eqb t u
  | ITagged u l is, ITagged v k js => Bool.eqb u v && Bool.eqb l k && list_eqb titem_eqb is js
  | _, _ => false
  end.
Definition tkind_eqb (a b : tkind) : bool :=
  match a, b with KBlock, KBlock | KKeyword, KKeyword | KStruct, KStruct | KEnum, KEnum => true | _, _ => false end.
Definition enumitem_eqb (a b : enumitem) : bool :=
  String.eqb (ei_tag a) (ei_tag b) && String.eqb (ei_variant a) (ei_variant b) &&
  opt_eqb version_eqb (ei_vmin a) (ei_vmin b) && opt_eqb version_eqb (ei_vmax a) (ei_vmax b).
Definition tydef_eqb (a b : tydef) : bool :=
  String.eqb (t_name a) (t_name b) && tkind_eqb (t_kind a) (t_kind b) && opt_eqb String.eqb (t_special a) (t_special b) &&
  list_eqb item_eqb (t_items a) (t_items b) && Bool.eqb (t_comments a) (t_comments b) &&
  list_eqb enumitem_eqb (t_enum a) (t_enum b).
Definition spec_eqb (a b : spec) : bool := list_eqb tydef_eqb a b.

Fixpoint lookup_ty (s : spec) (n : string) : option tydef :=
  match s with
  | [] => None
  | t :: r => if String.eqb (t_name t) n then Some t else lookup_ty r n
  end.

Definition version_leb (a b : version) : bool :=
  let n v := match v with V150 => 0 | V151 => 1 | V160 => 2 | V161 => 3 | V170 => 4 | V171 => 5 end in
  Nat.leb (n a) (n b).
Definition version_ltb (a b : version) : bool := negb (version_leb b a).
