(** The generic writer: interpreter of the template of a2lmacros/src/codegenerator/writer.rs
    (stringify of every generated type) together with writer.rs (Writer::add_*, add_group,
    sort_function, apply_position_restrictions, add_comments_to_group), A2ml::stringify,
    IfData::stringify and GenericIfData::write / write_item (a2ml.rs). *)
From Coq Require Import Ascii String List Bool NArith ZArith.
From A2L Require Import Base.StableSort Base.StrCmp Text.Escape Text.IntText Lex.Tokenizer Gram.Spec Gram.PState Gram.Parser.
Import ListNotations.
Local Open Scope N_scope.

(* position restriction of a type: impl PositionRestricted *)
Inductive posr := PRConst (n : N) | PRField (name : string).

Section W.
  Variable S : spec.
  Variable posrs : list (string * posr).
  Variable ftab : list fentry.
  Variable names : list bytes.          (* display names of the files, by file id *)

  Fixpoint repeat_bytes (b : bytes) (n : nat) : bytes :=
    match n with O => [] | Datatypes.S n' => b ++ repeat_bytes b n' end.

  Definition add_whitespace (indent : nat) (offset : N) : bytes :=
    if offset =? 0 then [" "%char]
    else repeat_bytes [lf] (N.to_nat offset) ++ repeat_bytes [" "; " "]%char indent.

  (* ---- floats: "{}" / "{:e}" of Rust through the oracle table, selection by magnitude ---- *)
  Fixpoint find_by_bits (tab : list fentry) (bits : N) : option (bytes * bytes) :=
    match tab with
    | [] => None
    | e :: r =>
        if fe_ok e && (fe_bits e =? bits) then Some (fe_plain e, fe_exp e)
        else if fe_ok32 e && (fe_bits32 e =? bits) then Some (fe_plain32 e, fe_exp32 e)
        else find_by_bits r bits
    end.

  Definition float_text (bits : N) : bytes :=
    let m := bits mod 2 ^ 63 in
    if m =? 0 then ["0"%char]
    else
      match find_by_bits ftab bits with
      | None => bytes_of "<float-not-in-oracle>"
      | Some (plain, exp) =>
          if 0x7FF0000000000000 <? m then plain                       (* NaN: every comparison is false *)
          else if (0x4202A05F20000000 <? m) || (m <? 0x3F1A36E2EB1C432D) then exp   (* |v| > 1e10 or |v| < 0.0001 *)
          else plain
      end.

  Definition quoted (s : bytes) : bytes := dq :: escape s ++ [dq].

  (* ---- the group writer ---- *)
  Inductive ginfo :=
  | GTag (tag : bytes) (incfile : option nat) (uid line so eo : N) (is_block : bool) (text : bytes) (pos : option N)
  | GComment (text : bytes) (is_included : bool) (uid line so : N).

  Definition g_uid (g : ginfo) : N := match g with GTag _ _ u _ _ _ _ _ _ => u | GComment _ _ u _ _ => u end.
  Definition g_line (g : ginfo) : N := match g with GTag _ _ _ l _ _ _ _ _ => l | GComment _ _ _ l _ => l end.
  Definition g_tag (g : ginfo) : bytes := match g with GTag t _ _ _ _ _ _ _ _ => t | GComment _ _ _ _ _ => [] end.
  Definition g_pos (g : ginfo) : option N := match g with GTag _ _ _ _ _ _ _ _ p => p | GComment _ _ _ _ _ => None end.

  Definition sort_function (a b : ginfo) : comparison :=
    if (g_uid a =? 0) && negb (g_uid b =? 0) then Gt
    else if (g_uid b =? 0) && negb (g_uid a =? 0) then Lt
    else if g_uid a =? g_uid b then
      (if g_line a =? g_line b
       then str_cmp (string_of_list_ascii (g_tag a)) (string_of_list_ascii (g_tag b))
       else N.compare (g_line a) (g_line b))
    else N.compare (g_uid a) (g_uid b).
  Definition sort_leb (a b : ginfo) : bool := match sort_function a b with Gt => false | _ => true end.

  Definition pos_leb (a b : ginfo) : bool :=
    match g_pos a, g_pos b with
    | Some x, Some y => x <=? y
    | None, _ => true
    | Some _, None => false
    end.

  Fixpoint replace_restricted (group : list ginfo) (sorted : list ginfo) : list ginfo :=
    match group with
    | [] => []
    | g :: r =>
        match g_pos g with
        | Some _ => match sorted with
                    | s :: sr => s :: replace_restricted r sr
                    | [] => g :: replace_restricted r []
                    end
        | None => g :: replace_restricted r sorted
        end
    end.

  Definition apply_position_restrictions (group : list ginfo) : list ginfo :=
    let restricted := filter (fun g => match g_pos g with Some _ => true | None => false end) group in
    if Nat.ltb 1 (length restricted) then replace_restricted group (ssort pos_leb restricted)
    else group.

  Fixpoint mem_nat (x : nat) (l : list nat) : bool :=
    match l with [] => false | y :: r => Nat.eqb x y || mem_nat x r end.

  Fixpoint emit_group (indent : nat) (group : list ginfo) (included : list nat) : bytes :=
    match group with
    | [] => []
    | GTag tag incfile _ _ so eo is_block text _ :: r =>
        match incfile with
        | Some f =>
            if mem_nat f included then emit_group indent r included
            else add_whitespace indent so ++ bytes_of "/include """ ++ nth f names [] ++ [dq] ++
                 emit_group indent r (f :: included)
        | None =>
            add_whitespace indent so ++ (if is_block then bytes_of "/begin " else []) ++ tag ++ text ++
            (if is_block then add_whitespace indent eo ++ bytes_of "/end " ++ tag else []) ++
            emit_group indent r included
        end
    | GComment text is_included _ _ so :: r =>
        (if is_included then [] else repeat_bytes [lf] (N.to_nat so) ++ text) ++ emit_group indent r included
    end.

  Definition add_group (indent : nat) (group : list ginfo) : bytes :=
    emit_group indent (apply_position_restrictions (ssort sort_leb group)) [].

  (* ---- GenericIfData::write ---- *)
  Definition gint_ity (variant : string) : ity :=
    if String.eqb variant "Char" then I8 else if String.eqb variant "Int" then I16
    else if String.eqb variant "Long" then I32 else if String.eqb variant "Int64" then I64
    else if String.eqb variant "UChar" then U8 else if String.eqb variant "UInt" then U16
    else if String.eqb variant "ULong" then U32 else U64.

  Fixpoint gifd_write (fuel : nat) (g : gifd) (indent : nat) : bytes :=
    match fuel with
    | O => []
    | Datatypes.S f =>
        let write_item :=
          (fix write_item (n : nat) (g : gifd) {struct n} : bytes :=
             match n with
             | O => []
             | Datatypes.S n' =>
                 match g with
                 | GInt variant off v hex => add_whitespace indent off ++ add_integer_text (gint_ity variant) v hex
                 | GFloat off bits | GDouble off bits => add_whitespace indent off ++ float_text bits
                 | GString off s => add_whitespace indent off ++ quoted s
                 | GEnumItem off s => add_whitespace indent off ++ s
                 | GArray items | GSequence items | GStruct _ _ items => flat_map (write_item n') items
                 | GTaggedStruct tg | GTaggedUnion tg =>
                     add_group indent
                       (flat_map (fun kv =>
                          map (fun t => match t with
                                        | GTI inc line uid so eo tag data is_block =>
                                            GTag tag inc uid line so eo is_block (gifd_write f data (Datatypes.S indent)) None
                                        end) (snd kv)) tg)
                 | GNone | GBlock _ _ _ => []
                 end
             end) in
        match g with
        | GStruct _ _ items | GBlock _ _ items => flat_map (write_item fuel) items
        | _ => write_item fuel g
        end
    end.

  (* ---- generic elements ---- *)
  Definition add_str_raw (indent : nat) (text : bytes) (off : N) : bytes :=
    (match text with
     | c :: _ => if is_ws c || (N_of_ascii c =? 11) then [] else add_whitespace indent off
     | [] => add_whitespace indent off
     end) ++ text.

  Fixpoint lookup_posr (l : list (string * posr)) (n : string) : option posr :=
    match l with [] => None | (k, v) :: r => if String.eqb k n then Some v else lookup_posr r n end.

  Fixpoint field_index (its : list item) (name : string) (i : nat) : option nat :=
    match its with
    | [] => None
    | IField n _ :: r => if String.eqb n name then Some i else field_index r name (Datatypes.S i)
    | ITagged _ _ _ :: r => field_index r name i
    end.

  Definition pos_restrict (v : value) : option N :=
    match v with
    | VNode ty _ fields _ _ =>
        match lookup_posr posrs ty with
        | Some (PRConst n) => Some n
        | Some (PRField name) =>
            match lookup_ty S ty with
            | Some td =>
                match field_index (t_items td) name 0 with
                | Some i => match nth i fields (VList []) with
                            | VScalar (SInt z _) _ => Some (Z.to_N z)
                            | _ => None
                            end
                | None => None
                end
            | None => None
            end
        | None => None
        end
    | _ => None
    end.

  Definition write_scalar (indent : nat) (ty : fty) (v : value) : bytes :=
    match ty, v with
    | FInt t, VScalar (SInt z hex) off => add_whitespace indent off ++ add_integer_text t z hex
    | (FDouble | FFloat), VScalar (SFloat bits) off => add_whitespace indent off ++ float_text bits
    | (FIdent | FEnum _), VScalar (SText s) off => add_whitespace indent off ++ s
    | (FString | FStringMax _), VScalar (SText s) off => add_whitespace indent off ++ quoted s
    | _, _ => []
    end.

  Definition layout_of (v : value) : layout :=
    match v with
    | VNode _ l _ _ _ => l
    | VIfData l _ _ => l
    | _ => mkLay 0 0 0 0 None
    end.

  Definition comment_info (c : comment) : ginfo :=
    GComment (cm_text c) (cm_included c) (cm_uid c) (cm_line c) (cm_so c).

  Fixpoint write_node (fuel : nat) (v : value) (indent : nat) {struct fuel} : bytes :=
    match fuel with
    | O => []
    | Datatypes.S f =>
        match v with
        | VIfData _ (Some g) _ => gifd_write (Datatypes.S fuel) g (indent - 1)
        | VIfData _ None _ => []
        | VNode ty lay fields kids cms =>
            match lookup_ty S ty with
            | None => []
            | Some td =>
                match t_special td with
                | Some _ =>      (* A2ml: add_str_raw of the text with CRLF -> LF *)
                    match fields with
                    | [VScalar (SText s) off] => add_str_raw indent (crlf_to_lf s) off
                    | _ => []
                    end
                | None =>
                    let is_block := match t_kind td with KBlock => true | _ => false end in
                    (fix items (its : list item) (fields : list value) (kids : list (list value)) {struct its} : bytes :=
                       match its with
                       | [] => []
                       | IField _ ty :: r =>
                           match fields with
                           | fv :: fr =>
                               (match ty, fv with
                                | FStruct _, _ => write_node f fv indent
                                | FArray t _, VList l => flat_map (write_scalar indent t) l
                                | FSeq (FStruct _) _, VList l => flat_map (fun x => write_node f x indent) l
                                | FSeq t _, VList l => flat_map (write_scalar indent t) l
                                | _, _ => write_scalar indent ty fv
                                end) ++ items r fr kids
                           | [] => []
                           end
                       | ITagged _ _ titems :: r =>
                           let mine := firstn (length titems) kids in
                           let group :=
                             flat_map (fun p =>
                                map (fun k =>
                                       let l := layout_of k in
                                       GTag (bytes_of (ti_tag (fst p))) (l_incfile l) (l_uid l) (l_line l) (l_so l) (l_eo l)
                                            (ti_block (fst p))
                                            (match l_incfile l with None => write_node f k (Datatypes.S indent) | Some _ => [] end)
                                            (pos_restrict k)) (snd p))
                              (combine titems mine) in
                           let group := if is_block then group ++ map comment_info cms else group in
                           add_group indent group ++ items r fields (skipn (length titems) kids)
                       end) (t_items td) fields kids
                end
            end
        | _ => []
        end
    end.
End W.
