(** The generic writer: interpreter of the template of a2lmacros/src/codegenerator/writer.rs
    (stringify of every generated type) together with writer.rs (Writer::add_*, add_group,
    sort_function, apply_position_restrictions, add_comments_to_group), A2ml::stringify,
    IfData::stringify and GenericIfData::write / write_item (a2ml.rs). *)
From Coq Require Import Ascii String List Bool NArith ZArith.
From A2L Require Import Base.StableSort Base.StrCmp Text.Escape Text.IntText Lex.Tokenizer Gram.Spec Gram.PState Gram.Parser.
Import ListNotations.
Local Open Scope N_scope.

(* position restriction of a type: impl PositionRestricted *)
Inductive posr := PRConst (n : N) | PRField (name : string).

(* ---- the group writer: what an entry of a group carries, and the order in which a group is written.
   [P] is what is written for the entry: the text in the writer below, the tokens in Gram/TokWriter.v ---- *)
Section Group.
  Context {P : Type}.
  Inductive ginfo :=
  | GTag (tag : bytes) (incfile : option nat) (uid line so eo : N) (is_block : bool) (text : P) (pos : option N)
  | GComment (text : bytes) (is_included : bool) (uid line so : N).

  Definition g_uid (g : ginfo) : N := match g with GTag _ _ u _ _ _ _ _ _ => u | GComment _ _ u _ _ => u end.
  Definition g_line (g : ginfo) : N := match g with GTag _ _ _ l _ _ _ _ _ => l | GComment _ _ _ l _ => l end.
  Definition g_tag (g : ginfo) : bytes := match g with GTag t _ _ _ _ _ _ _ _ => t | GComment _ _ _ _ _ => [] end.
  Definition g_pos (g : ginfo) : option N := match g with GTag _ _ _ _ _ _ _ _ p => p | GComment _ _ _ _ _ => None end.

  Definition sort_function (a b : ginfo) : comparison :=
    if (g_uid a =? 0) && negb (g_uid b =? 0) then Gt
    else if (g_uid b =? 0) && negb (g_uid a =? 0) then Lt
    else if g_uid a =? g_uid b then
      (if g_line a =? g_line b
       then str_cmp (string_of_list_ascii (g_tag a)) (string_of_list_ascii (g_tag b))
       else N.compare (g_line a) (g_line b))
    else N.compare (g_uid a) (g_uid b).
  Definition sort_leb (a b : ginfo) : bool := match sort_function a b with Gt => false | _ => true end.

  Definition pos_leb (a b : ginfo) : bool :=
    match g_pos a, g_pos b with
    | Some x, Some y => x <=? y
    | None, _ => true
    | Some _, None => false
    end.

  Fixpoint replace_restricted (group : list ginfo) (sorted : list ginfo) : list ginfo :=
    match group with
    | [] => []
    | g :: r =>
        match g_pos g with
        | Some _ => match sorted with
                    | s :: sr => s :: replace_restricted r sr
                    | [] => g :: replace_restricted r []
                    end
        | None => g :: replace_restricted r sorted
        end
    end.

  Definition apply_position_restrictions (group : list ginfo) : list ginfo :=
    let restricted := filter (fun g => match g_pos g with Some _ => true | None => false end) group in
    if Nat.ltb 1 (length restricted) then replace_restricted group (ssort pos_leb restricted)
    else group.

  (* the order in which add_group writes the entries *)
  Definition group_order (group : list ginfo) : list ginfo := apply_position_restrictions (ssort sort_leb group).
End Group.
Arguments ginfo : clear implicits.

Section W.
  Variable S : spec.
  Variable posrs : list (string * posr).
  Variable ftab : list fentry.
  Variable names : list bytes.          (* display names of the files, by file id *)

  Fixpoint repeat_bytes (b : bytes) (n : nat) : bytes :=
    match n with O => [] | Datatypes.S n' => b ++ repeat_bytes b n' end.

  (* One Writer: the text written so far (reversed) and the flag line_comment_open. *)
  Definition out := (bytes * bool)%type.
  Definition empty_out : out := ([], false).
  Definition push (b : bytes) (o : out) : out := (rev_append b (fst o), snd o).
  Definition finish (o : out) : bytes := frev (fst o).

  (* writer.rs ends_with_line_comment: does the text, scanned from its beginning (outside comments and strings), end
     inside a "//" comment? *)
  Fixpoint elc_scan (l : bytes) (in_string in_bc in_lc : bool) : bool :=
    match l with
    | [] => in_lc
    | c :: tl =>
        if in_lc then elc_scan tl false false (negb (aeq c lf))
        else if in_string then
          if aeq c bs then match tl with _ :: tl' => elc_scan tl' true false false | [] => false end
          else if aeq c dq then elc_scan tl false false false
          else elc_scan tl true false false
        else if in_bc then
          match tl with
          | n :: tl' => if aeq c "*" && aeq n "/" then elc_scan tl' false false false else elc_scan tl false true false
          | [] => false
          end
        else if aeq c dq then elc_scan tl true false false
        else
          match tl with
          | n :: tl' =>
              if aeq c "/" && aeq n "*" then elc_scan tl' false true false
              else if aeq c "/" && aeq n "/" then elc_scan tl' false false true
              else elc_scan tl false false false
          | [] => false
          end
    end.
  Definition ends_with_line_comment (text : bytes) : bool := elc_scan text false false false.

  (* Writer::track_line_comment *)
  Definition track_line_comment (text : bytes) (o : out) : out :=
    if existsb (fun c => aeq c lf) text then (fst o, ends_with_line_comment text)
    else if snd o then o else (fst o, ends_with_line_comment text).

  Definition add_whitespace (indent : nat) (offset : N) (o : out) : out :=
    let offset := if (offset =? 0) && snd o then 1 else offset in
    if offset =? 0 then push [" "%char] o
    else (rev_append (repeat_bytes [lf] (N.to_nat offset) ++ repeat_bytes [" "; " "]%char indent) (fst o), false).

  (* ---- floats: "{}" / "{:e}" of Rust through the oracle table, selection by magnitude ---- *)
  Fixpoint find_by_bits (tab : list fentry) (bits : N) : option (bytes * bytes) :=
    match tab with
    | [] => None
    | e :: r =>
        if fe_ok e && (fe_bits e =? bits) then Some (fe_plain e, fe_exp e)
        else if fe_ok32 e && (fe_bits32 e =? bits) then Some (fe_plain32 e, fe_exp32 e)
        else find_by_bits r bits
    end.

  Definition float_text (bits : N) : bytes :=
    let m := bits mod 2 ^ 63 in
    if m =? 0 then ["0"%char]
    else
      match find_by_bits ftab bits with
      | None => bytes_of "<float-not-in-oracle>"
      | Some (plain, exp) =>
          if 0x7FF0000000000000 <? m then plain                       (* NaN: every comparison is false *)
          else if (0x4202A05F20000000 <? m) || (m <? 0x3F1A36E2EB1C432D) then exp   (* |v| > 1e10 or |v| < 0.0001 *)
          else plain
      end.

  Definition quoted (s : bytes) : bytes := dq :: escape s ++ [dq].

  (* included_files: HashSet<String> keyed by the text of the directive *)
  Fixpoint mem_name (x : bytes) (l : list bytes) : bool :=
    match l with [] => false | y :: r => bytes_eqb x y || mem_name x r end.

  Fixpoint emit_group (indent : nat) (group : list (ginfo bytes)) (included : list bytes) (o : out) : out :=
    match group with
    | [] => o
    | GTag tag incfile _ _ so eo is_block text _ :: r =>
        match incfile with
        | Some f =>
            let incname := nth f names [] in
            if mem_name incname included then emit_group indent r included o
            else emit_group indent r (incname :: included)
                   (push (bytes_of "/include """ ++ incname ++ [dq]) (add_whitespace indent so o))
        | None =>
            let o1 := track_line_comment text
                        (push ((if is_block then bytes_of "/begin " else []) ++ tag ++ text) (add_whitespace indent so o)) in
            let o2 := if is_block then push (bytes_of "/end " ++ tag) (add_whitespace indent eo o1) else o1 in
            emit_group indent r included o2
        end
    | GComment text is_included _ _ so :: r =>
        emit_group indent r included
          (if is_included then o
           else track_line_comment text
                  (push text (let so := if (so =? 0) && snd o then 1 else so in
                              if so =? 0 then o else (rev_append (repeat_bytes [lf] (N.to_nat so)) (fst o), false))))
    end.

  Definition add_group (indent : nat) (group : list (ginfo bytes)) (o : out) : out :=
    emit_group indent (group_order group) [] o.

  (* ---- GenericIfData::write ---- *)
  Definition gint_ity (variant : string) : ity :=
    if String.eqb variant "Char" then I8 else if String.eqb variant "Int" then I16
    else if String.eqb variant "Long" then I32 else if String.eqb variant "Int64" then I64
    else if String.eqb variant "UChar" then U8 else if String.eqb variant "UInt" then U16
    else if String.eqb variant "ULong" then U32 else U64.

  Fixpoint gifd_write (fuel : nat) (g : gifd) (indent : nat) : bytes :=
    match fuel with
    | O => []
    | Datatypes.S f =>
        let write_item :=
          (fix write_item (n : nat) (g : gifd) (o : out) {struct n} : out :=
             match n with
             | O => o
             | Datatypes.S n' =>
                 match g with
                 | GInt variant off v hex => push (add_integer_text (gint_ity variant) v hex) (add_whitespace indent off o)
                 | GFloat off bits | GDouble off bits => push (float_text bits) (add_whitespace indent off o)
                 | GString off s => push (quoted s) (add_whitespace indent off o)
                 | GEnumItem off s => push s (add_whitespace indent off o)
                 | GArray items | GSequence items | GStruct _ _ items => fold_left (fun acc it => write_item n' it acc) items o
                 | GTaggedStruct tg | GTaggedUnion tg =>
                     add_group indent
                       (flat_map (fun kv =>
                          map (fun t => match t with
                                        | GTI inc line uid so eo tag data is_block =>
                                            GTag tag inc uid line so eo is_block (gifd_write f data (Datatypes.S indent)) None
                                        end) (snd kv)) tg) o
                 | GNone | GBlock _ _ _ => o
                 end
             end) in
        finish (match g with
                | GStruct _ _ items | GBlock _ _ items => fold_left (fun acc it => write_item fuel it acc) items empty_out
                | _ => write_item fuel g empty_out
                end)
    end.

  (* ---- generic elements ---- *)
  Definition add_str_raw (indent : nat) (text : bytes) (off : N) (o : out) : out :=
    push text (match text with
               | c :: _ => if is_ws c || (N_of_ascii c =? 11) then o else add_whitespace indent off o
               | [] => add_whitespace indent off o
               end).

  Fixpoint lookup_posr (l : list (string * posr)) (n : string) : option posr :=
    match l with [] => None | (k, v) :: r => if String.eqb k n then Some v else lookup_posr r n end.

  Fixpoint field_index (its : list item) (name : string) (i : nat) : option nat :=
    match its with
    | [] => None
    | IField n _ :: r => if String.eqb n name then Some i else field_index r name (Datatypes.S i)
    | ITagged _ _ _ :: r => field_index r name i
    end.

  Definition pos_restrict (v : value) : option N :=
    match v with
    | VNode ty _ fields _ _ =>
        match lookup_posr posrs ty with
        | Some (PRConst n) => Some n
        | Some (PRField name) =>
            match lookup_ty S ty with
            | Some td =>
                match field_index (t_items td) name 0 with
                | Some i => match nth i fields (VList []) with
                            | VScalar (SInt z _) _ => Some (Z.to_N z)
                            | _ => None
                            end
                | None => None
                end
            | None => None
            end
        | None => None
        end
    | _ => None
    end.

  Definition write_scalar (indent : nat) (ty : fty) (v : value) (o : out) : out :=
    match ty, v with
    | FInt t, VScalar (SInt z hex) off => push (add_integer_text t z hex) (add_whitespace indent off o)
    | (FDouble | FFloat), VScalar (SFloat bits) off => push (float_text bits) (add_whitespace indent off o)
    | (FIdent | FEnum _), VScalar (SText s) off => push s (add_whitespace indent off o)
    | (FString | FStringMax _), VScalar (SText s) off => push (quoted s) (add_whitespace indent off o)
    | _, _ => o
    end.

  Definition layout_of (v : value) : layout :=
    match v with
    | VNode _ l _ _ _ => l
    | VIfData l _ _ => l
    | _ => mkLay 0 0 0 0 None
    end.

  Definition comment_info (c : comment) : ginfo bytes :=
    GComment (cm_text c) (cm_included c) (cm_uid c) (cm_line c) (cm_so c).

  (* the items of one element; [wi] writes a nested element one level down ([wi v indent o]: the writer [o] of the enclosing
     element continues with the items of [v] - struct references share the parent's Writer; a child of a tagged group is
     written by a stringify call with a fresh Writer) *)
  Section Items.
    Variable wi : value -> nat -> out -> out.
    Fixpoint write_items (is_block : bool) (indent : nat) (cms : list comment)
             (its : list item) (fields : list value) (kids : list (list value)) (o : out) {struct its} : out :=
      match its with
      | [] => o
      | IField _ ty :: r =>
          match fields with
          | fv :: fr =>
              write_items is_block indent cms r fr kids
                (match ty, fv with
                 | FStruct _, _ => wi fv indent o
                 | FArray t _, VList l => fold_left (fun acc x => write_scalar indent t x acc) l o
                 | FSeq (FStruct _) _, VList l => fold_left (fun acc x => wi x indent acc) l o
                 | FSeq t _, VList l => fold_left (fun acc x => write_scalar indent t x acc) l o
                 | _, _ => write_scalar indent ty fv o
                 end)
          | [] => o
          end
      | ITagged _ _ titems :: r =>
          let mine := firstn (length titems) kids in
          let group :=
            flat_map (fun p =>
               map (fun k =>
                      let l := layout_of k in
                      GTag (bytes_of (ti_tag (fst p))) (l_incfile l) (l_uid l) (l_line l) (l_so l) (l_eo l)
                           (ti_block (fst p))
                           (match l_incfile l with
                            | None => finish (wi k (Datatypes.S indent) empty_out)
                            | Some _ => []
                            end)
                           (pos_restrict k)) (snd p))
             (combine titems mine) in
          let group := if is_block then group ++ map comment_info cms else group in
          write_items is_block indent cms r fields (skipn (length titems) kids) (add_group indent group o)
      end.
  End Items.

  (* [write_into fuel v indent o]: the writer [o] of the enclosing element continues with the items of [v];
     [write_node] is a stringify call with a fresh Writer *)
  Fixpoint write_into (fuel : nat) (v : value) (indent : nat) (o : out) {struct fuel} : out :=
    match fuel with
    | O => o
    | Datatypes.S f =>
        match v with
        | VIfData _ (Some g) _ => push (gifd_write (Datatypes.S fuel) g (indent - 1)) o
        | VIfData _ None _ => o
        | VNode ty lay fields kids cms =>
            match lookup_ty S ty with
            | None => o
            | Some td =>
                match t_special td with
                | Some _ =>
                    match fields with
                    | [VScalar (SText s) off] =>
                        (* A2ml::stringify: with /end A2ML on the line of the text (offset 0) a text that ends in white space gets a
                           line break of its own, the tokenizer drops white space in front of /end up to and including one line break *)
                        let text := crlf_to_lf s in
                        let guard := (l_eo lay =? 0) && match rev text with c :: _ => is_ws c && negb (aeq c cr) | [] => false end in
                        add_str_raw indent (if guard then text ++ [lf] else text) off o
                    | _ => o
                    end
                | None =>
                    write_items (write_into f) (match t_kind td with KBlock => true | _ => false end) indent cms
                                (t_items td) fields kids o
                end
            end
        | _ => o
        end
    end.

  Definition write_node (fuel : nat) (v : value) (indent : nat) : bytes := finish (write_into fuel v indent empty_out).
End W.
