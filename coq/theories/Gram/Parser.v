(** The generic parser: an interpreter of the code template of
    a2lmacros/src/codegenerator/parser.rs over a grammar [spec].  One definition covers all
    generated `impl ParseableA2lObject for X` bodies; A2ml::parse, IfData::parse (with the
    uninterpreted fallback of ifdata.rs) and parse_file / parse_version of parser.rs follow. *)
From Coq Require Import Ascii String List Bool NArith ZArith.
From A2L Require Import Text.Escape Text.IntText Lex.Tokenizer Gram.Spec A2ml.Types Gram.PState.
Import ListNotations.
Local Open Scope N_scope.

Record layout := mkLay { l_uid : N; l_line : N; l_so : N; l_eo : N; l_incfile : option nat }.
Inductive scalar := SInt (v : Z) (hex : bool) | SFloat (bits : N) | SText (s : bytes).
Record comment := mkCm { cm_text : bytes; cm_uid : N; cm_line : N; cm_so : N; cm_included : bool }.

(* generic IF_DATA content (a2ml.rs GenericIfData); hash maps as association lists in insertion order *)
Inductive gifd :=
| GNone
| GInt (variant : string) (off : N) (v : Z) (hex : bool)
| GFloat (off : N) (bits : N)
| GDouble (off : N) (bits : N)
| GString (off : N) (s : bytes)
| GEnumItem (off : N) (s : bytes)
| GArray (l : list gifd)
| GSequence (l : list gifd)
| GTaggedStruct (items : list (bytes * list gtitem))
| GTaggedUnion (items : list (bytes * list gtitem))
| GStruct (incfile : option nat) (line : N) (items : list gifd)
| GBlock (incfile : option nat) (line : N) (items : list gifd)
with gtitem :=
| GTI (incfile : option nat) (line uid so eo : N) (tag : bytes) (data : gifd) (is_block : bool).

Inductive value :=
| VScalar (s : scalar) (off : N)
| VList (l : list value)
| VNode (ty : string) (lay : layout) (fields : list value) (kids : list (list value)) (comments : list comment)
| VIfData (lay : layout) (items : option gifd) (valid : bool).

Definition bytes_of (s : string) : bytes := list_ascii_of_string s.

Fixpoint a2ml_lookup (txt : bytes) (tab : list (bytes * (option a2mlty * bytes))) : option (option a2mlty * bytes) :=
  match tab with
  | [] => None
  | (k, v) :: r => if bytes_eqb k txt then Some v else a2ml_lookup txt r
  end.

(* ---------- enumerations ---------- *)
Fixpoint find_enumitem (items : list enumitem) (txt : bytes) : option enumitem :=
  match items with
  | [] => None
  | e :: r => if bytes_eqb (bytes_of (ei_tag e)) txt then Some e else find_enumitem r txt
  end.

Definition parse_enum (td : tydef) (c : ctx) : M bytes :=
  enumname <-- get_identifier c ;;
  match find_enumitem (t_enum td) enumname with
  | Some e =>
      (match ei_vmin e with Some v => check_enumitem_version_lower c (bytes_of (ei_tag e)) v | None => ret tt end) ;;;
      (match ei_vmax e with Some v => check_enumitem_version_upper c (bytes_of (ei_tag e)) v | None => ret tt end) ;;;
      ret (bytes_of (ei_tag e))
  | None => d <-- mk_diag "InvalidEnumValue" c enumname ;; fail d
  end.

(* ---------- uninterpreted IF_DATA (ifdata.rs, the parse_unknown_ifdata functions) ---------- *)
Fixpoint assoc_push (k : bytes) (v : gtitem) (l : list (bytes * list gtitem)) : list (bytes * list gtitem) :=
  match l with
  | [] => [(k, [v])]
  | (k', vs) :: r => if bytes_eqb k k' then (k', vs ++ [v]) :: r else (k', vs) :: assoc_push k v r
  end.

Fixpoint skip_comments (fuel : nat) (c : ctx) : M unit :=
  match fuel with
  | O => out_of_fuel
  | S f =>
      pk <-- peek_token ;;
      match pk with
      | Some t => if ttype_eqb (tk_type t) TComment then get_token c ;;; skip_comments f c else ret tt
      | None => ret tt
      end
  end.

Definition remaining : M nat := fun s => (ROk (length (ps_after s)), s).

Section Unknown.

  (* parse_unknown_ifdata and parse_unknown_taggedstruct are mutually recursive; [fuel] bounds the nesting
     (one unit per /begin), [n] the loop iterations *)
  Fixpoint unknown_ifdata (fuel : nat) (c : ctx) (is_block : bool) : M gifd :=
    match fuel with
    | O => out_of_fuel
    | S f =>
        let loop :=
          (fix loop (n : nat) (items : list gifd) {struct n} : M (list gifd) :=
             match n with
             | O => out_of_fuel
             | S n' =>
                 pk <-- peek_token ;;
                 match pk with
                 | None => d <-- eof_diag c ;; fail d
                 | Some t =>
                     match tk_type t with
                     | TIdentifier =>
                         v <-- get_identifier c ;; off <-- get_line_offset ;;
                         loop n' (items ++ [GEnumItem off v])
                     | TString =>
                         v <-- get_string c ;; off <-- get_line_offset ;;
                         loop n' (items ++ [GString off v])
                     | TNumber =>
                         r <-- try (get_integer I32 c) ;;
                         match r with
                         | (Some (v, hex), _) => off <-- get_line_offset ;; loop n' (items ++ [GInt "Long" off v hex])
                         | _ =>
                             undo_get_token ;;;
                             rf <-- try (get_float c) ;;
                             match rf with
                             | (Some fl, _) => off <-- get_line_offset ;; loop n' (items ++ [GFloat off fl])
                             | _ =>
                                 (* too large for an f32: kept as a double *)
                                 undo_get_token ;;;
                                 db <-- get_double c ;; off <-- get_line_offset ;;
                                 loop n' (items ++ [GDouble off db])
                             end
                         end
                     | TBegin =>
                         if is_block then
                           ts <-- unknown_taggedstruct f c ;; loop n' (items ++ [ts])
                         else ret items
                     | TEnd => ret items
                     | TInclude => loop n' items          (* the token is not consumed: the Rust loop would spin *)
                     | TComment => get_token c ;;; loop n' items
                     end
                 end
             end) in
        n <-- remaining ;;
        items <-- loop (S (S n)) [] ;;
        inc <-- get_incfilename (c_fileid c) ;;
        ret (GStruct inc 0 items)
    end
  with unknown_taggedstruct (fuel : nat) (c : ctx) : M gifd :=
    match fuel with
    | O => out_of_fuel
    | S f =>
        n0 <-- remaining ;;
        skip_comments (S n0) c ;;;
        let loop :=
          (fix loop (n : nat) (ts : list (bytes * list gtitem)) {struct n} : M (list (bytes * list gtitem)) :=
             match n with
             | O => out_of_fuel
             | S n' =>
                 r <-- try (get_next_tag_or_comment c) ;;
                 match r with
                 | (Some (BCBlock token is_block start_offset), _) =>
                     uid <-- get_next_id ;;
                     let tag := tk_text token in
                     let newc := ctx_from_token tag token in
                     data <-- unknown_ifdata f newc is_block ;;
                     end_offset <--
                       (if is_block then
                          expect_token newc TEnd ;;;
                          eo <-- get_line_offset ;;
                          endident <-- expect_token newc TIdentifier ;;
                          if bytes_eqb (tk_text endident) tag then ret eo
                          else (d <-- mk_diag "IncorrectEndTag" newc (tk_text endident) ;; fail d)
                        else ret 0) ;;
                     inc <-- get_incfilename (c_fileid newc) ;;
                     nrem <-- remaining ;;
                     skip_comments (Datatypes.S nrem) c ;;;
                     loop n' (assoc_push tag (GTI inc (c_line newc) uid start_offset end_offset tag data is_block) ts)
                 | _ => ret ts
                 end
             end) in
        n <-- remaining ;;
        ts <-- loop (S n) [] ;;
        pk <-- peek_token ;;
        match pk with
        | Some t => if ttype_eqb (tk_type t) TBegin
                    then (d <-- mk_diag "InvalidBegin" c (c_element c) ;; fail d)
                    else ret (GTaggedStruct ts)
        | None => ret (GTaggedStruct ts)
        end
    end.

  Definition unknown_ifdata_start (fuel : nat) (c : ctx) : M gifd :=
    pk <-- peek_token ;;
    match pk with
    | Some t =>
        if ttype_eqb (tk_type t) TIdentifier then
          token <-- get_token c ;;
          start_offset <-- get_line_offset ;;
          let tag := tk_text token in
          uid <-- get_next_id ;;
          let newc := ctx_from_token tag token in
          result <-- unknown_ifdata fuel newc true ;;
          undo_get_token ;;;
          end_offset <-- get_line_offset ;;
          _ <-- try (get_token c) ;;
          inc <-- get_incfilename (c_fileid newc) ;;
          inc0 <-- get_incfilename (c_fileid c) ;;
          ret (GBlock inc0 start_offset
                 [GTaggedUnion [(tag, [GTI inc (c_line newc) uid start_offset end_offset tag result false])]])
        else unknown_ifdata fuel c true
    | None => unknown_ifdata fuel c true
    end.
End Unknown.

(* ---------- ifdata.rs: the type-directed IF_DATA parser (parse_ifdata, parse_ifdata_from_spec, parse_ifdata_item,
   parse_ifdata_taggedstruct, parse_ifdata_taggeditem, parse_ifdata_make_block) ----------
   Recursion follows the type specification ([fuel] bounds its depth); the while-loops of Sequence and TaggedStruct are
   bounded by the number of remaining tokens plus two. *)
Fixpoint find_tagged (items : list tagged) (tag : bytes) : option tagged :=
  match items with
  | [] => None
  | t :: r => if bytes_eqb (tg_tag t) tag then Some t else find_tagged r tag
  end.
Fixpoint enum_has (items : list (bytes * option Z)) (x : bytes) : bool :=
  match items with
  | [] => false
  | (k, _) :: r => bytes_eqb k x || enum_has r x
  end.

Definition make_block (data : gifd) (incfile : option nat) (line : N) : gifd :=
  match data with
  | GStruct _ _ items => GBlock incfile line items
  | _ => GBlock incfile line [data]
  end.

Definition int_item (variant : string) (t : ity) (c : ctx) : M gifd :=
  r <-- get_integer t c ;; off <-- get_line_offset ;; ret (GInt variant off (fst r) (snd r)).

Section Item.
  Variable rec : a2mlty -> ctx -> M gifd.       (* parse_ifdata_item one level down *)

  (* for _ in 0..dim { arrayitems.push(parse_ifdata_item(..)?) } *)
  Fixpoint array_items (n : nat) (ty : a2mlty) (c : ctx) : M (list gifd) :=
    match n with
    | O => ret []
    | S n' => x <-- rec ty c ;; r <-- array_items n' ty c ;; ret (x :: r)
    end.
  Fixpoint struct_items (tys : list a2mlty) (c : ctx) : M (list gifd) :=
    match tys with
    | [] => ret []
    | ty :: r => x <-- rec ty c ;; xs <-- struct_items r c ;; ret (x :: xs)
    end.
  (* while let Ok(item) = parse_ifdata_item(..) { push; checkpoint } set_tokenpos(checkpoint) *)
  Fixpoint seq_items (n : nat) (ty : a2mlty) (c : ctx) (acc : list gifd) : M (list gifd) :=
    match n with
    | O => out_of_fuel
    | S n' =>
        checkpoint <-- get_tokenpos ;;
        r <-- try (rec ty c) ;;
        match r with
        | (Some item, _) =>
            pos <-- get_tokenpos ;;
            (* an item that matched without consuming anything ends the sequence *)
            if Nat.eqb pos checkpoint then set_tokenpos checkpoint ;;; ret acc
            else seq_items n' ty c (acc ++ [item])
        | _ => set_tokenpos checkpoint ;;; ret acc
        end
    end.

  (* parse_ifdata_taggeditem *)
  Definition tagged_item (spec : list tagged) (c : ctx) : M (option gtitem) :=
    checkpoint <-- get_tokenpos ;;
    n0 <-- remaining ;;
    skip_comments (S n0) c ;;;
    r <-- try (get_next_tag_or_comment c) ;;
    match r with
    | (Some (BCBlock token is_block start_offset), _) =>
        let tag := tk_text token in
        match find_tagged spec tag with
        | Some ts =>
            if negb (Bool.eqb (tg_block ts) is_block) then set_tokenpos checkpoint ;;; ret None
            else
              uid <-- get_next_id ;;
              let newc := ctx_from_token tag token in
              data <-- rec (tg_item ts) newc ;;
              inc0 <-- get_incfilename (c_fileid newc) ;;
              let parsed := make_block data inc0 (c_line newc) in
              end_offset <--
                (if is_block then
                   expect_token newc TEnd ;;;
                   eo <-- get_line_offset ;;
                   endident <-- expect_token newc TIdentifier ;;
                   if bytes_eqb (tk_text endident) tag then ret eo
                   else (d <-- mk_diag "IncorrectEndTag" newc (tk_text endident) ;; fail d)
                 else ret 0) ;;
              inc <-- get_incfilename (c_fileid newc) ;;
              ret (Some (GTI inc (c_line newc) uid start_offset end_offset tag parsed is_block))
        | None => set_tokenpos checkpoint ;;; ret None
        end
    | _ => set_tokenpos checkpoint ;;; ret None
    end.

  (* parse_ifdata_taggedstruct: while let Some(item) = parse_ifdata_taggeditem(..)? *)
  Fixpoint taggedstruct_items (n : nat) (spec : list tagged) (c : ctx) (acc : list (bytes * list gtitem))
    : M (list (bytes * list gtitem)) :=
    match n with
    | O => out_of_fuel
    | S n' =>
        r <-- tagged_item spec c ;;
        match r with
        | Some (GTI inc line uid so eo tag data isb) =>
            taggedstruct_items n' spec c (assoc_push tag (GTI inc line uid so eo tag data isb) acc)
        | None => ret acc
        end
    end.

  Definition item_step (ty : a2mlty) (c : ctx) : M gifd :=
    match ty with
    | TNone => ret GNone
    | TChar => int_item "Char" I8 c
    | TInt => int_item "Int" I16 c
    | TLong => int_item "Long" I32 c
    | TInt64 => int_item "Int64" I64 c
    | TUChar => int_item "UChar" U8 c
    | TUInt => int_item "UInt" U16 c
    | TULong => int_item "ULong" U32 c
    | TUInt64 => int_item "UInt64" U64 c
    | TFloat => v <-- get_float c ;; off <-- get_line_offset ;; ret (GFloat off v)
    | TDouble => v <-- get_double c ;; off <-- get_line_offset ;; ret (GDouble off v)
    | TArray TChar dim => s <-- get_string_maxlen c dim ;; off <-- get_line_offset ;; ret (GString off s)
    | TArray item dim => l <-- array_items dim item c ;; ret (GArray l)
    | TEnum items =>
        e <-- get_identifier c ;;
        off <-- get_line_offset ;;
        if enum_has items e then ret (GEnumItem off e)
        else (d <-- mk_diag "InvalidEnumValue" c e ;; fail d)
    | TStruct items =>
        l <-- struct_items items c ;;
        inc <-- get_incfilename (c_fileid c) ;;
        ret (GStruct inc 0 l)
    | TSequence item =>
        n <-- remaining ;;
        l <-- seq_items (S (S n)) item c [] ;;
        ret (GSequence l)
    | TTaggedStruct spec =>
        n <-- remaining ;;
        l <-- taggedstruct_items (S (S n)) spec c [] ;;
        ret (GTaggedStruct l)
    | TTaggedUnion spec =>
        r <-- tagged_item spec c ;;
        match r with
        | Some (GTI inc line uid so eo tag data isb) => ret (GTaggedUnion [(tag, [GTI inc line uid so eo tag data isb])])
        | None => ret (GTaggedUnion [])
        end
    end.
End Item.

Fixpoint parse_ifdata_item (fuel : nat) (ty : a2mlty) (c : ctx) : M gifd :=
  match fuel with
  | O => out_of_fuel
  | S f => item_step (parse_ifdata_item f) ty c
  end.

(* depth of a type specification: enough fuel for parse_ifdata_item *)
Fixpoint ty_depth (ty : a2mlty) : nat :=
  match ty with
  | TArray i _ => S (ty_depth i)
  | TSequence i => S (ty_depth i)
  | TStruct l => S (fold_right (fun t m => Nat.max (ty_depth t) m) 0%nat l)
  | TTaggedStruct l | TTaggedUnion l =>
      S (fold_right (fun t m => Nat.max (match t with Tagged _ _ _ i => ty_depth i end) m) 0%nat l)
  | _ => 1%nat
  end.

(* parse_ifdata_from_spec *)
Definition parse_ifdata_from_spec (spec : a2mlty) (c : ctx) : M (option gifd) :=
  pos <-- get_tokenpos ;;
  r <-- try (parse_ifdata_item (S (ty_depth spec)) spec c) ;;
  match r with
  | (Some g, _) =>
      (* a comment before the /end is not part of the data *)
      n0 <-- remaining ;;
      rc <-- try (skip_comments (S n0) c) ;;
      pk <-- peek_token ;;
      match pk with
      | Some t =>
          if ttype_eqb (tk_type t) TEnd then
            inc <-- get_incfilename (c_fileid c) ;;
            ret (Some (make_block g inc (c_line c)))
          else set_tokenpos pos ;;; ret None
      | None => set_tokenpos pos ;;; ret None
      end
  | _ => set_tokenpos pos ;;; ret None
  end.

Fixpoint first_spec (specs : list a2mlty) (c : ctx) : M (option gifd) :=
  match specs with
  | [] => ret None
  | sp :: r =>
      g <-- parse_ifdata_from_spec sp c ;;
      match g with Some x => ret (Some x) | None => first_spec r c end
  end.

(* parse_ifdata: the built-in specification first, then the one of the A2ML block, then the uninterpreted fallback *)
Definition parse_ifdata (specs : list a2mlty) (fuel : nat) (c : ctx) : M (option gifd * bool) :=
  n0 <-- remaining ;;
  skip_comments (S n0) c ;;;
  pk <-- peek_token ;;
  match pk with
  | Some t =>
      (* an IF_DATA without content can conform to the definition as well *)
      r <-- first_spec specs c ;;
      match r with
      | Some g => ret (Some g, true)
      | None =>
          if ttype_eqb (tk_type t) TEnd then ret (None, false)
          else (g <-- unknown_ifdata_start fuel c ;; ret (Some g, false))
      end
  | None => ret (None, false)
  end.

(* str::replace("\r\n", "\n") *)
Fixpoint crlf_to_lf (l : bytes) : bytes :=
  match l with
  | a :: tl =>
      match tl with
      | b :: r => if aeq a cr && aeq b lf then lf :: crlf_to_lf r else a :: crlf_to_lf tl
      | [] => [a]
      end
  | [] => []
  end.

Definition end_tag_check (c : ctx) (expected : bytes) : M unit :=
  ident <-- get_identifier c ;;
  if bytes_eqb ident expected then ret tt
  else (d <-- mk_diag "IncorrectEndTag" c ident ;; error_or_log d).

(* ---------- the generic element parser ---------- *)
Section Elem.
  Variable S : spec.
  Variable rec : tydef -> ctx -> N -> M value.       (* the recursive call, one level of nesting deeper *)
  Variable ifdata_fuel : nat.

  Definition parse_scalar_field (ty : fty) (c : ctx) : M value :=
    match ty with
    | FInt t => r <-- get_integer t c ;; off <-- get_line_offset ;; ret (VScalar (SInt (fst r) (snd r)) off)
    | FDouble => v <-- get_double c ;; off <-- get_line_offset ;; ret (VScalar (SFloat v) off)
    | FFloat => v <-- get_float c ;; off <-- get_line_offset ;; ret (VScalar (SFloat v) off)
    | FIdent => v <-- get_identifier c ;; off <-- get_line_offset ;; ret (VScalar (SText v) off)
    | FString => v <-- get_string c ;; off <-- get_line_offset ;; ret (VScalar (SText v) off)
    | FStringMax n => v <-- get_string_maxlen c n ;; ret (VScalar (SText v) 0)
    | FEnum e =>
        match lookup_ty S e with
        | Some td => v <-- parse_enum td c ;; off <-- get_line_offset ;; ret (VScalar (SText v) off)
        | None => panic "spec: unknown enum"
        end
    | FStruct s =>
        match lookup_ty S s with
        | Some td => rec td c 0
        | None => panic "spec: unknown struct"
        end
    | _ => panic "spec: nested array / sequence"
    end.

  Fixpoint parse_n (n : nat) (ty : fty) (c : ctx) : M (list value) :=
    match n with
    | O => ret []
    | Datatypes.S n' => v <-- parse_scalar_field ty c ;; r <-- parse_n n' ty c ;; ret (v :: r)
    end.

  Definition is_stopword (stop : list string) (v : value) : bool :=
    match v with
    | VScalar (SText s) _ => existsb (fun w => bytes_eqb (bytes_of w) s) stop
    | _ => false
    end.

  Fixpoint parse_seq (n : nat) (ty : fty) (stop : list string) (c : ctx) (acc : list value) : M (list value) :=
    match n with
    | O => out_of_fuel
    | Datatypes.S n' =>
        current_token <-- get_tokenpos ;;
        r <-- try (parse_scalar_field ty c) ;;
        match r with
        | (Some v, _) =>
            if is_stopword stop v then set_tokenpos current_token ;;; ret acc
            else parse_seq n' ty stop c (acc ++ [v])
        | _ => set_tokenpos current_token ;;; ret acc
        end
    end.

  Definition parse_field (ty : fty) (c : ctx) : M value :=
    match ty with
    | FArray t n => l <-- parse_n n t c ;; ret (VList l)
    | FSeq t stop => n <-- remaining ;; l <-- parse_seq (Datatypes.S n) t stop c [] ;; ret (VList l)
    | _ => parse_scalar_field ty c
    end.

  (* kids of one tagged group: one list per tagged item, in item order *)
  Fixpoint find_titem (items : list titem) (tag : bytes) (idx : nat) : option (nat * titem) :=
    match items with
    | [] => None
    | ti :: r => if bytes_eqb (bytes_of (ti_tag ti)) tag then Some (idx, ti) else find_titem r tag (Datatypes.S idx)
    end.

  Fixpoint upd_nth {A} (l : list A) (i : nat) (f : A -> A) : list A :=
    match l, i with
    | [], _ => []
    | x :: r, O => f x :: r
    | x :: r, Datatypes.S j => x :: upd_nth r j f
    end.

  Definition parse_special_or_generic (td : tydef) (newc : ctx) (line_offset : N) : M value :=
    match t_special td with
    | None => rec td newc line_offset
    | Some sp =>
        if String.eqb sp "A2ml" then
          inc <-- get_incfilename (c_fileid newc) ;;
          uid <-- get_next_id ;;
          token <-- expect_token newc TString ;;
          loc <-- get_line_offset ;;
          (* a2ml::parse_a2ml on the text (oracle: the type specification the library derives from this text) *)
          (let txt := crlf_to_lf (tk_text token) in
           fun s => match a2ml_lookup txt (ps_a2ml s) with
                    | Some (Some ty, _) => push_spec ty s
                    | Some (None, msg) => bindM (mk_diag "A2mlError" newc msg) error_or_log s
                    | None => (RPanic "a2ml oracle: text not in the table", s)
                    end) ;;;
          expect_token newc TEnd ;;;
          (* the line breaks of the A2ML text are written with the text: they are not part of the offset of /end *)
          eo <-- get_line_offset ;;
          end_tag_check newc (bytes_of "A2ML") ;;;
          ret (VNode "A2ml" (mkLay uid (c_line newc) line_offset (eo - count_newlines (tk_text token)) inc)
                     [VScalar (SText (crlf_to_lf (tk_text token))) loc] [] [])
        else
          inc <-- get_incfilename (c_fileid newc) ;;
          uid <-- get_next_id ;;
          specs <-- get_specs ;;
          r <-- parse_ifdata specs ifdata_fuel newc ;;
          expect_token newc TEnd ;;;
          eo <-- get_line_offset ;;
          end_tag_check newc (bytes_of "IF_DATA") ;;;
          ret (VIfData (mkLay uid (c_line newc) line_offset eo inc) (fst r) (snd r))
    end.

  Fixpoint tagged_loop (n : nat) (parent_is_block : bool) (last : bool) (items : list titem) (c : ctx)
           (kids : list (list value)) (cms : list comment) : M (list (list value) * list comment) :=
    match n with
    | O => out_of_fuel
    | Datatypes.S n' =>
        next_tag <-- get_next_tag_or_comment c ;;
        match next_tag with
        | BCBlock token is_block line_offset =>
            let tag := tk_text token in
            let newc := ctx_from_token tag token in
            match find_titem items tag 0 with
            | Some (idx, ti) =>
                (if ti_block ti then require_block tag is_block c else require_keyword tag is_block c) ;;;
                (match ti_vmin ti with Some v => check_block_version_lower c tag v | None => ret tt end) ;;;
                (match ti_vmax ti with Some v => check_block_version_upper c tag v | None => ret tt end) ;;;
                match lookup_ty S (ti_type ti) with
                | None => panic "spec: unknown element type"
                | Some td =>
                    newitem <-- parse_special_or_generic td newc line_offset ;;
                    if ti_repeat ti then
                      tagged_loop n' parent_is_block last items c (upd_nth kids idx (fun l => l ++ [newitem])) cms
                    else
                      handle_multiplicity_error c tag (match nth idx kids [] with [] => false | _ => true end) ;;;
                      tagged_loop n' parent_is_block last items c (upd_nth kids idx (fun _ => [newitem])) cms
                end
            | None =>
                if parent_is_block && last then
                  handle_unknown_taggedstruct_tag c tag is_block (map (fun ti => bytes_of (ti_tag ti)) items) ;;;
                  tagged_loop n' parent_is_block last items c kids cms
                else
                  (if is_block then undo_get_token else ret tt) ;;;
                  undo_get_token ;;;
                  ret (kids, cms)
            end
        | BCComment token line_offset =>
            if parent_is_block then
              uid <-- get_next_id ;;
              tagged_loop n' parent_is_block last items c kids
                          (cms ++ [mkCm (tk_text token) uid (c_line c) line_offset (negb (Nat.eqb (tk_fileid token) 0))])
            else tagged_loop n' parent_is_block last items c kids cms
        | BCNone => ret (kids, cms)
        end
    end.

  (* required-item checks after the loop, in item order *)
  Fixpoint multiplicity_check (items : list titem) (kids : list (list value)) (c : ctx) : M unit :=
    match items, kids with
    | ti :: ir, k :: kr =>
        (if ti_required ti then
           match k with
           | [] =>
               d <-- mk_diag "InvalidMultiplicityNotPresent" c (bytes_of (ti_tag ti)) ;;
               if ti_repeat ti then error_or_log d else fail d
           | _ => ret tt
           end
         else ret tt) ;;;
        multiplicity_check ir kr c
    | _, _ => ret tt
    end.

  Fixpoint parse_items (its : list item) (is_block : bool) (c : ctx)
           (fields : list value) (kids : list (list value)) (cms : list comment)
    : M (list value * list (list value) * list comment) :=
    match its with
    | [] => ret (fields, kids, cms)
    | IField _ ty :: r =>
        v <-- parse_field ty c ;; parse_items r is_block c (fields ++ [v]) kids cms
    | ITagged union last titems :: r =>
        if union then panic "spec: tagged union form is not used by the A2L grammar"
        else
          n <-- remaining ;;
          res <-- tagged_loop (Datatypes.S (Datatypes.S n)) is_block last titems c (map (fun _ => []) titems) cms ;;
          multiplicity_check titems (fst res) c ;;;
          parse_items r is_block c fields (kids ++ fst res) (snd res)
    end.

  Definition parse_body (td : tydef) (c : ctx) (start_offset : N) : M value :=
    inc <-- get_incfilename (c_fileid c) ;;
    uid <-- get_next_id ;;
    let is_block := match t_kind td with KBlock => true | _ => false end in
    r <-- parse_items (t_items td) is_block c [] [] [] ;;
    let '(fields, kids, cms) := r in
    eo <-- (if is_block then
              expect_token c TEnd ;;;
              eo <-- get_line_offset ;;
              end_tag_check c (c_element c) ;;;
              ret eo
            else ret 0) ;;
    ret (VNode (t_name td) (mkLay uid (c_line c) start_offset eo inc) fields kids cms).
End Elem.

Fixpoint parse_ty (fuel : nat) (S : spec) (ifdata_fuel : nat) (td : tydef) (c : ctx) (start_offset : N) : M value :=
  match fuel with
  | O => out_of_fuel
  | Datatypes.S f => parse_body S (parse_ty f S ifdata_fuel) ifdata_fuel td c start_offset
  end.

(* ---------- parse_file / parse_version ---------- *)
Definition a2l_version_new (major minor : Z) : option version :=
  if (major =? 1)%Z then
    if (minor =? 50)%Z then Some V150 else if (minor =? 51)%Z then Some V151
    else if (minor =? 60)%Z then Some V160 else if (minor =? 61)%Z then Some V161
    else if (minor =? 70)%Z then Some V170 else if (minor =? 71)%Z then Some V171 else None
  else None.

Definition missing_version : diag := mkDiag "MissingVersionInfo" None 0 [].

Definition z_dec (z : Z) : bytes := dec_of_Z z.

Definition parse_version (fuel : nat) (S : spec) (c : ctx) : M version :=
  pk <-- peek_token ;;
  match pk with
  | Some token =>
      ident <-- try (get_identifier c) ;;
      let ver_context := ctx_from_token [] token in
      match ident with
      | (Some id, _) =>
          if bytes_eqb id (bytes_of "ASAP2_VERSION") then
            match lookup_ty S "Asap2Version" with
            | None => panic "spec: Asap2Version"
            | Some td =>
                r <-- try (parse_ty fuel S 0 td ver_context 0) ;;
                set_tokenpos 0 ;;;
                match r with
                | (Some (VNode _ _ [VScalar (SInt major _) _; VScalar (SInt minor _) _] _ _), _) =>
                    match a2l_version_new major minor with
                    | Some v => ret v
                    | None =>
                        error_or_log (mkDiag "InvalidVersion" None 0 (z_dec major ++ " "%char :: z_dec minor)) ;;;
                        ret V171
                    end
                | _ => error_or_log missing_version ;;; ret V171
                end
            end
          else set_tokenpos 0 ;;; error_or_log missing_version ;;; ret V151
      | _ => set_tokenpos 0 ;;; error_or_log missing_version ;;; ret V151
      end
  | None => set_tokenpos 0 ;;; error_or_log missing_version ;;; ret V151
  end.

Definition set_file_version (v : version) : M unit := fun s => (ROk tt, upd_ver s v).

Definition parse_file (S : spec) : M value :=
  fun s0 =>
    let ntok := length (ps_after s0) in
    let fuel := Datatypes.S (Datatypes.S ntok) in
    let firstline := match ps_after s0 with t :: _ => tk_line t | [] => 1 end in
    let c := mkCtx (bytes_of "A2L_FILE") 0 firstline in
    (ver <-- parse_version fuel S c ;;
     set_file_version ver ;;;
     match lookup_ty S "A2lFile" with
     | None => panic "spec: A2lFile"
     | Some td =>
         file <-- parse_ty fuel S fuel td c 0 ;;
         pk <-- peek_token ;;
         match pk with
         | Some token =>
             (fun s => if Nat.ltb (tk_fileid token) (ps_nfiles s)
                       then error_or_log (mkDiag "AdditionalTokensError" (Some (ps_last s)) (tk_fileid token) (tk_text token)) s
                       else (RPanic "parser.rs: filenames[token.fileid]", s)) ;;;
             ret file
         | None => ret file
         end
     end) s0.
