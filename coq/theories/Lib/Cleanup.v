(** Model of a2lfile/src/cleanup.rs and cleanup/{groups,functions,compu_methods,record_layouts}.rs (C10) over
    the part of one MODULE that cleanup reads or writes.

    Everything cleanup never touches (the content of objects and typedefs apart from the fields below, IF_DATA,
    annotations, ...) is not in the state; what it reads from objects is kept as lists of reference slots:
      m_conv        conversion fields that remove_invalid_compumethod_refs rewrites and remove_unused_compumethods
                    counts as uses (AXIS_PTS, CHARACTERISTIC and its AXIS_DESCRs, MEASUREMENT, TYPEDEF_AXIS,
                    TYPEDEF_CHARACTERISTIC and its AXIS_DESCRs, TYPEDEF_MEASUREMENT), in that order
      m_conv_ro     conversions that count as uses but are not rewritten (INSTANCE / OVERWRITE / CONVERSION)
      m_obj_funcs   the FUNCTION_LISTs of AXIS_PTS, CHARACTERISTIC, MEASUREMENT
      m_rl_uses     record layout names used by AXIS_PTS, CHARACTERISTIC, TYPEDEF_CHARACTERISTIC, TYPEDEF_AXIS,
                    MOD_COMMON / S_REC_LAYOUT
      m_grp_uses    group names listed by USER_RIGHTS / REF_GROUP
    The worklists of groups.rs / functions.rs (delete_queue, user_of) are modelled as rounds: delete everything
    that may go, remove its name from the sub-lists of the others, repeat while something was deleted.        *)
From Coq Require Import String List NArith Bool Ascii.
From A2L Require Import Text.Escape Lex.Tokenizer Lib.Merge.
Import ListNotations.

Definition olist := option (list name).
Definition NO_CM : name := list_ascii_of_string "NO_COMPU_METHOD"%string.

Record cgroup := mkG { g_nm : name; g_sub : olist; g_rc : olist; g_rm : olist; g_fl : olist }.
Record cfunc := mkF { f_nm : name; f_sub : olist; f_rc : olist; f_dc : olist; f_in : olist; f_loc : olist;
                      f_out : olist; f_proto : option name }.
Record ccm := mkCM { cm_nm : name; cm_tab : option name; cm_unit : option name; cm_ssr : option name }.
Record cunit := mkU { u_nm : name; u_ref : option name }.

Record cmod := mkM {
  m_objs : list (N * name);            (* 0 AXIS_PTS 1 BLOB 2 CHARACTERISTIC 3 INSTANCE 4 MEASUREMENT *)
  m_groups : list cgroup;
  m_funcs : list cfunc;
  m_cms : list ccm;
  m_tabs : list (N * name);            (* 0 COMPU_TAB 1 COMPU_VTAB 2 COMPU_VTAB_RANGE *)
  m_units : list cunit;
  m_rls : list name;
  m_conv : list name;
  m_conv_ro : list name;
  m_obj_funcs : list (list name);
  m_rl_uses : list name;
  m_grp_uses : list name }.

Definition keep_in (valid : list name) (l : list name) : list name := filter (fun x => mem x valid) l.
(* Vec::retain on an optional list that is dropped when it becomes empty / kept as an empty element *)
Definition retain_drop (valid : list name) (o : olist) : olist :=
  match o with
  | Some l => match keep_in valid l with [] => None | l' => Some l' end
  | None => None
  end.
Definition retain_keep (valid : list name) (o : olist) : olist := option_map (keep_in valid) o.
Definition oempty (o : olist) : bool := match o with Some (_ :: _) => false | _ => true end.
(* "for every user of the deleted element: retain(|item| item != name); if the list is empty, drop it" *)
Definition remove_names (dead : list name) (o : olist) : olist :=
  match o with
  | Some l =>
      if existsb (fun x => mem x dead) l then
        match filter (fun x => negb (mem x dead)) l with [] => None | l' => Some l' end
      else o
  | None => None
  end.

(* ---------- groups.rs ---------- *)
(* build_refname_set: CHARACTERISTIC, MEASUREMENT, BLOB, INSTANCE (not AXIS_PTS) *)
Definition group_refnames (m : cmod) : list name :=
  map snd (filter (fun o => negb (N.eqb (fst o) 0)) (m_objs m)).
Definition group_empty (g : cgroup) : bool := oempty (g_sub g) && oempty (g_rc g) && oempty (g_rm g).

Definition groups_round (used : list name) (gs : list cgroup) : list cgroup * bool :=
  let dead := map g_nm (filter (fun g => negb (mem (g_nm g) used) && group_empty g) gs) in
  match dead with
  | [] => (gs, false)
  | _ => (map (fun g => mkG (g_nm g) (remove_names dead (g_sub g)) (g_rc g) (g_rm g) (g_fl g))
              (filter (fun g => negb (mem (g_nm g) dead)) gs), true)
  end.
Fixpoint iterate {A} (fuel : nat) (step : A -> A * bool) (x : A) : A :=
  match fuel with
  | O => x
  | S f => let (y, again) := step x in if again then iterate f step y else y
  end.
Definition cleanup_groups (m : cmod) : list cgroup :=
  let valid := group_refnames m in
  let gs := map (fun g => mkG (g_nm g) (g_sub g) (retain_drop valid (g_rc g)) (retain_drop valid (g_rm g)) (g_fl g))
                (m_groups m) in
  iterate (S (length gs)) (groups_round (m_grp_uses m)) gs.

(* ---------- functions.rs ---------- *)
Definition func_empty (f : cfunc) : bool :=
  oempty (f_rc f) && oempty (f_dc f) && oempty (f_in f) && oempty (f_loc f) && oempty (f_out f) && oempty (f_sub f).

(* remove_broken_func_refs / remove_broken_object_refs: plain retain, the (possibly empty) element stays *)
Definition function_names (fs : list cfunc) : list name := map f_nm fs.
Definition object_names (m : cmod) : list name := map snd (m_objs m).

(* a function may go if nothing outside refers to it, it refers to nothing, and every function that names it as
   its prototype goes as well: least fixpoint, computed by growing the set *)
Definition may_go (used : list name) (fs : list cfunc) (dead : list name) (f : cfunc) : bool :=
  negb (mem (f_nm f) used) && func_empty f &&
  forallb (fun u => match f_proto u with
                    | Some p => negb (bytes_eqb p (f_nm f)) || mem (f_nm u) dead
                    | None => true
                    end) fs.
Fixpoint dead_fix (fuel : nat) (used : list name) (fs : list cfunc) (dead : list name) : list name :=
  match fuel with
  | O => dead
  | S k =>
      let dead' := map f_nm (filter (may_go used fs dead) fs) in
      if Nat.eqb (length dead') (length dead) then dead else dead_fix k used fs dead'
  end.
Definition funcs_round (used : list name) (fs : list cfunc) : list cfunc * bool :=
  let dead := dead_fix (S (length fs)) used fs [] in
  match dead with
  | [] => (fs, false)
  | _ => (map (fun f => mkF (f_nm f) (remove_names dead (f_sub f)) (f_rc f) (f_dc f) (f_in f) (f_loc f) (f_out f) (f_proto f))
              (filter (fun f => negb (mem (f_nm f) dead)) fs), true)
  end.

Record after_funcs := mkAF { af_funcs : list cfunc; af_groups : list cgroup; af_obj_funcs : list (list name) }.
Definition cleanup_functions (m : cmod) (groups : list cgroup) : after_funcs :=
  let existing := function_names (m_funcs m) in
  let obj_funcs := map (keep_in existing) (m_obj_funcs m) in
  let groups' := map (fun g => mkG (g_nm g) (g_sub g) (g_rc g) (g_rm g) (retain_keep existing (g_fl g))) groups in
  let objs := object_names m in
  let fs := map (fun f => mkF (f_nm f) (retain_keep existing (f_sub f)) (retain_keep objs (f_rc f)) (retain_keep objs (f_dc f))
                              (retain_keep objs (f_in f)) (retain_keep objs (f_loc f)) (retain_keep objs (f_out f)) (f_proto f))
                (m_funcs m) in
  let used := concat obj_funcs ++ concat (map (fun g => match g_fl g with Some l => l | None => [] end) groups') in
  mkAF (iterate (S (length fs)) (funcs_round used) fs) groups' obj_funcs.

(* ---------- compu_methods.rs ---------- *)
Definition cm_names (cms : list ccm) : list name := map cm_nm cms.
Definition fix_conv (cms : list ccm) (c : name) : name := if mem c (cm_names cms) then c else NO_CM.
Definition opt_list (o : option name) : list name := match o with Some x => [x] | None => [] end.

(* units in use: named by a COMPU_METHOD, or by the REF_UNIT of a unit in use *)
Fixpoint unit_closure (fuel : nat) (units : list cunit) (used : list name) : list name :=
  match fuel with
  | O => used
  | S k =>
      let more := flat_map (fun u => if mem (u_nm u) used then
                                       match u_ref u with Some r => if mem r used then [] else [r] | None => [] end
                                     else []) units in
      match more with [] => used | _ => unit_closure k units (used ++ more) end
  end.

Record after_cms := mkAC { ac_conv : list name; ac_cms : list ccm; ac_tabs : list (N * name); ac_units : list cunit }.
Definition cleanup_compu_methods (m : cmod) : after_cms :=
  (* remove_invalid_compumethod_refs *)
  let conv := map (fix_conv (m_cms m)) (m_conv m) in
  (* remove_unused_compumethods *)
  let used_cm := conv ++ m_conv_ro m in
  let cms := filter (fun c => mem (cm_nm c) used_cm) (m_cms m) in
  (* remove_unused_sub_elements *)
  let used_tabs := flat_map (fun c => opt_list (cm_tab c) ++ opt_list (cm_ssr c)) cms in
  let tabs := filter (fun t => mem (snd t) used_tabs) (m_tabs m) in
  let used_units := unit_closure (S (length (m_units m))) (m_units m) (flat_map (fun c => opt_list (cm_unit c)) cms) in
  let units := filter (fun u => mem (u_nm u) used_units) (m_units m) in
  (* remove_invalid_sub_element_refs *)
  let tabnames := map snd tabs in
  let unitnames := map u_nm units in
  let cms' := map (fun c => mkCM (cm_nm c)
                                 (match cm_tab c with Some t => if mem t tabnames then Some t else None | None => None end)
                                 (match cm_unit c with Some u => if mem u unitnames then Some u else None | None => None end)
                                 (cm_ssr c)) cms in
  mkAC conv cms' tabs units.

(* ---------- record_layouts.rs ---------- *)
Definition cleanup_record_layouts (m : cmod) : list name := filter (fun r => mem r (m_rl_uses m)) (m_rls m).

(* ---------- cleanup.rs: groups, functions, compu methods, record layouts ---------- *)
Definition cleanup (m : cmod) : cmod :=
  let gs := cleanup_groups m in
  let af := cleanup_functions m gs in
  let ac := cleanup_compu_methods m in
  mkM (m_objs m) (af_groups af) (af_funcs af) (ac_cms ac) (ac_tabs ac) (ac_units ac) (cleanup_record_layouts m)
      (ac_conv ac) (m_conv_ro m) (af_obj_funcs af) (m_rl_uses m) (m_grp_uses m).
