(** Model of a2lfile/src/itemlist.rs (ItemList<T>).

    [items] is the Vec<T>; an item is its name plus an opaque payload id (the
    rest of T, which no ItemList operation inspects).  [map] is the
    HashMap<String, usize>, modelled as a finite partial function: get, insert,
    remove, entry().or_insert() and clear() are the only map operations the code
    uses besides keys(), whose iteration order is unspecified (it is observed as
    a set by the correspondence check).

    Every operation is transcribed statement by statement; Vec indexing and
    Vec::swap_remove are the partial operations that panic in Rust and they
    return [Panic] here. *)
From Coq Require Import String List Arith Bool NArith.
From A2L Require Import Base.Res.
Import ListNotations.
Local Open Scope list_scope.

Definition item : Type := (string * N)%type.
Definition iname (it : item) : string := fst it.

Definition smap := string -> option nat.
Definition m_empty : smap := fun _ => None.
Definition m_get (m : smap) (k : string) : option nat := m k.
Definition m_insert (k : string) (v : nat) (m : smap) : smap :=
  fun k' => if String.eqb k' k then Some v else m k'.
Definition m_remove (k : string) (m : smap) : smap :=
  fun k' => if String.eqb k' k then None else m k'.
(* self.map.entry(key).or_insert(index) *)
Definition m_or_insert (k : string) (v : nat) (m : smap) : smap :=
  match m k with Some _ => m | None => m_insert k v m end.

Record ilist := { items : list item; imap : smap }.

Definition il_new : ilist := {| items := []; imap := m_empty |}.

(* ---- Vec primitives ---- *)
(* Vec::swap_remove(index): panics when index >= len *)
Definition vec_swap_remove (l : list item) (i : nat) : option (item * list item) :=
  match nth_error l i with
  | None => None
  | Some x =>
      let pre := firstn i l in
      let post := skipn (S i) l in
      match rev post with
      | [] => Some (x, pre)
      | last :: rmid => Some (x, pre ++ last :: rev rmid)
      end
  end.

(* Vec::pop *)
Definition vec_pop (l : list item) : option (item * list item) :=
  match rev l with
  | [] => None
  | x :: r => Some (x, rev r)
  end.

(* replace element i (used by rename_item: items[i].set_name) *)
Fixpoint set_nth (l : list item) (i : nat) (x : item) : list item :=
  match l, i with
  | [], _ => []
  | _ :: r, 0 => x :: r
  | y :: r, S j => y :: set_nth r j x
  end.

(* for (idx, item) in self.items.iter().enumerate() { self.map.insert(key, idx) } *)
Fixpoint rebuild_from (l : list item) (idx : nat) (m : smap) : smap :=
  match l with
  | [] => m
  | it :: r => rebuild_from r (S idx) (m_insert (iname it) idx m)
  end.
Definition rebuild (l : list item) : smap := rebuild_from l 0 m_empty.

(* stable sort: Vec::sort_by is a stable sort, so for a comparator that is a total
   preorder its result is the unique stable arrangement computed by insertion sort *)
Section Sort.
  Variable le : item -> item -> bool.    (* cmp(a,b) != Greater *)
  Fixpoint insert_sorted (x : item) (l : list item) : list item :=
    match l with
    | [] => [x]
    | y :: r => if le x y then x :: y :: r else y :: insert_sorted x r
    end.
  (* insert from the right so that equal elements keep their order *)
  Fixpoint isort (l : list item) : list item :=
    match l with
    | [] => []
    | x :: r => insert_sorted x (isort r)
    end.
End Sort.

(* ---- operations ---- *)
Inductive pred := PNameLt (s : string) | PPayEven | PAll | PNone | PNameNe (s : string).
Inductive cmpk := CNameAsc | CNameDesc | CPayAsc | CConstEq.

Fixpoint str_leb (a b : string) : bool :=
  match a, b with
  | EmptyString, _ => true
  | String _ _, EmptyString => false
  | String x a', String y b' =>
      let nx := Ascii.nat_of_ascii x in let ny := Ascii.nat_of_ascii y in
      if nx <? ny then true else if ny <? nx then false else str_leb a' b'
  end.
Definition str_ltb (a b : string) : bool := negb (str_leb b a).

Definition eval_pred (p : pred) (it : item) : bool :=
  match p with
  | PNameLt s => str_ltb (iname it) s
  | PPayEven => N.even (snd it)
  | PAll => true
  | PNone => false
  | PNameNe s => negb (String.eqb (iname it) s)
  end.
Definition eval_cmp (c : cmpk) (a b : item) : bool :=
  match c with
  | CNameAsc => str_leb (iname a) (iname b)
  | CNameDesc => str_leb (iname b) (iname a)
  | CPayAsc => N.leb (snd a) (snd b)
  | CConstEq => true
  end.

Inductive op :=
| OPush (it : item)
| OPop
| OSwapRemove (k : string)
| OSwapRemoveIdx (i : nat)
| ORetain (p : pred)
| OTruncate (len : nat)
| OSortBy (c : cmpk)
| ORename (i : nat) (new : string)
| OExtend (l : list item)
| OClear
| OCollect (l : list item).    (* replace the list by FromIterator::from_iter(l) *)

Inductive out :=
| ONone
| OItem (o : option item).

Definition il_push (l : ilist) (it : item) : ilist :=
  let index := length (items l) in
  {| items := items l ++ [it]; imap := m_or_insert (iname it) index (imap l) |}.

Definition il_pop (l : ilist) : ilist * option item :=
  match vec_pop (items l) with
  | None => (l, None)
  | Some (it, rest) => ({| items := rest; imap := m_remove (iname it) (imap l) |}, Some it)
  end.

Definition il_swap_remove (l : ilist) (k : string) : Res (ilist * option item) :=
  match m_get (imap l) k with
  | None => Ok (l, None)
  | Some index =>
      let m1 := m_remove k (imap l) in
      match vec_swap_remove (items l) index with
      | None => Panic "itemlist.rs:swap_remove:Vec::swap_remove"
      | Some (it, items') =>
          if index <? length items' then
            match nth_error items' index with
            | None => Panic "itemlist.rs:swap_remove:items[index]"
            | Some moved =>
                Ok ({| items := items'; imap := m_insert (iname moved) index m1 |}, Some it)
            end
          else Ok ({| items := items'; imap := m1 |}, Some it)
      end
  end.

Definition il_swap_remove_idx (l : ilist) (index : nat) : Res (ilist * option item) :=
  if index <? length (items l) then
    match vec_swap_remove (items l) index with
    | None => Panic "itemlist.rs:swap_remove_idx:Vec::swap_remove"
    | Some (it, items') =>
        let m1 := m_remove (iname it) (imap l) in
        if index <? length items' then
          match nth_error items' index with
          | None => Panic "itemlist.rs:swap_remove_idx:items[index]"
          | Some moved =>
              Ok ({| items := items'; imap := m_insert (iname moved) index m1 |}, Some it)
          end
        else Ok ({| items := items'; imap := m1 |}, Some it)
    end
  else Ok (l, None).

(* retain: rebuilds items by pushing kept ones, inserting (key, len-1) *)
Fixpoint retain_loop (p : pred) (src : list item) (acc : list item) (m : smap) : list item * smap :=
  match src with
  | [] => (acc, m)
  | it :: r =>
      if eval_pred p it then
        let acc' := acc ++ [it] in
        retain_loop p r acc' (m_insert (iname it) (length acc' - 1) m)
      else retain_loop p r acc m
  end.
Definition il_retain (l : ilist) (p : pred) : ilist :=
  let '(its, m) := retain_loop p (items l) [] m_empty in {| items := its; imap := m |}.

Definition il_truncate (l : ilist) (len : nat) : ilist :=
  if len <? length (items l) then
    let its := firstn len (items l) in {| items := its; imap := rebuild its |}
  else l.

Definition il_sort_by (l : ilist) (c : cmpk) : ilist :=
  let its := isort (eval_cmp c) (items l) in {| items := its; imap := rebuild its |}.

Definition il_rename (l : ilist) (idx : nat) (new : string) : Res ilist :=
  if idx <? length (items l) then
    match nth_error (items l) idx with
    | None => Panic "itemlist.rs:rename_item:items[item_idx]"
    | Some it =>
        let m1 := m_remove (iname it) (imap l) in
        Ok {| items := set_nth (items l) idx (new, snd it); imap := m_insert new idx m1 |}
    end
  else Ok l.

Definition il_extend (l : ilist) (its : list item) : ilist := fold_left il_push its l.
Definition il_clear (l : ilist) : ilist := {| items := []; imap := m_empty |}.
Definition il_collect (its : list item) : ilist := fold_left il_push its il_new.

Definition step (l : ilist) (o : op) : Res (ilist * out) :=
  match o with
  | OPush it => Ok (il_push l it, ONone)
  | OPop => let '(l', r) := il_pop l in Ok (l', OItem r)
  | OSwapRemove k => '(l', r) <- il_swap_remove l k ;; Ok (l', OItem r)
  | OSwapRemoveIdx i => '(l', r) <- il_swap_remove_idx l i ;; Ok (l', OItem r)
  | ORetain p => Ok (il_retain l p, ONone)
  | OTruncate n => Ok (il_truncate l n, ONone)
  | OSortBy c => Ok (il_sort_by l c, ONone)
  | ORename i new => l' <- il_rename l i new ;; Ok (l', ONone)
  | OExtend its => Ok (il_extend l its, ONone)
  | OClear => Ok (il_clear l, ONone)
  | OCollect its => Ok (il_collect its, ONone)
  end.

(* ---- read-only API ---- *)
Definition il_get (l : ilist) (k : string) : Res (option item) :=
  match m_get (imap l) k with
  | None => Ok None
  | Some i => match nth_error (items l) i with
              | Some it => Ok (Some it)
              | None => Panic "itemlist.rs:get:items[*index]"
              end
  end.
Definition il_index (l : ilist) (k : string) : option nat := m_get (imap l) k.
Definition il_contains_key (l : ilist) (k : string) : bool :=
  match m_get (imap l) k with Some _ => true | None => false end.
Definition il_len (l : ilist) : nat := length (items l).
Definition il_iter (l : ilist) : list item := items l.

(* run a history, stopping at the first panic *)
Fixpoint run (l : ilist) (ops : list op) : Res ilist :=
  match ops with
  | [] => Ok l
  | o :: r => '(l', _) <- step l o ;; run l' r
  end.

(* ---- the abstract specification: a plain vector of items ---- *)
Fixpoint find_idx (k : string) (v : list item) : option nat :=
  match v with
  | [] => None
  | x :: r => if String.eqb (iname x) k then Some 0
              else match find_idx k r with Some i => Some (S i) | None => None end
  end.

Definition spec_step (v : list item) (o : op) : list item * out :=
  match o with
  | OPush it => (v ++ [it], ONone)
  | OPop => match vec_pop v with None => (v, OItem None) | Some (it, r) => (r, OItem (Some it)) end
  | OSwapRemove k =>
      match find_idx k v with
      | None => (v, OItem None)
      | Some i => match vec_swap_remove v i with
                  | Some (it, v') => (v', OItem (Some it))
                  | None => (v, OItem None)
                  end
      end
  | OSwapRemoveIdx i =>
      match vec_swap_remove v i with
      | None => (v, OItem None)
      | Some (it, v') => (v', OItem (Some it))
      end
  | ORetain p => (filter (eval_pred p) v, ONone)
  | OTruncate n => (firstn n v, ONone)
  | OSortBy c => (isort (eval_cmp c) v, ONone)
  | ORename i new =>
      match nth_error v i with
      | None => (v, ONone)
      | Some it => (set_nth v i (new, snd it), ONone)
      end
  | OExtend its => (v ++ its, ONone)
  | OClear => ([], ONone)
  | OCollect its => (its, ONone)
  end.

(* lookup in the specification: the first (only) item with that name *)
Definition spec_get (v : list item) (k : string) : option item :=
  match find_idx k v with Some i => nth_error v i | None => None end.
