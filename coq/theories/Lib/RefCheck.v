(** Model of the cross-reference part of checker.rs (C11) over the reference graph of one module.

    defs    the definitions of the module: (namespace, name); a namespace is what one ItemList / one of
            Module::objects(), compu_tabs(), typedefs() holds
    rslot   one reference: the site instance it sits at (position in the site table), the text it holds, and -
            for the THIS. convention of AXIS_PTS_REF / CURVE_AXIS_REF inside an indirectly used
            TYPEDEF_CHARACTERISTIC and for the local value lists of VAR_CRITERION - whether the local rule
            resolves it (computed by the abstraction function checks/reflib.py from the structure context)
    the table says per site instance: target namespace, whether check() looks at the site, how many
    CrossReferenceErrors one dangling reference produces, and the names that stand for "no reference".     *)
From Coq Require Import String List NArith Bool.
From A2L Require Import Gen.Sites.
Import ListNotations.
Local Open Scope string_scope.

Record rslot := mkRS { rs_site : N; rs_target : string; rs_local : option bool }.

Definition defined (defs : list (string * string)) (ns t : string) : bool :=
  existsb (fun d => String.eqb (fst d) ns && String.eqb (snd d) t) defs.

Definition is_special (s : site) (t : string) : bool := existsb (String.eqb t) (st_special s).

Definition slot_dangling (defs : list (string * string)) (s : site) (r : rslot) : bool :=
  match rs_local r with
  | Some ok => negb ok
  | None => negb (is_special s (rs_target r)) && negb (defined defs (st_ns s) (rs_target r))
  end.

(* the name a report carries: the text of the reference (without the THIS. prefix when the local rule applies) *)
Definition strip_this (t : string) : string :=
  if String.prefix "THIS." t then String.substring 5 (String.length t - 5) t else t.
Definition reported (r : rslot) : string :=
  match rs_local r with Some _ => strip_this (rs_target r) | None => rs_target r end.

Definition check_slot (tbl : list site) (defs : list (string * string)) (r : rslot) : list string :=
  match nth_error tbl (N.to_nat (rs_site r)) with
  | Some s => if st_check s && slot_dangling defs s r then repeat (reported r) (N.to_nat (st_reports s)) else []
  | None => []
  end.

Definition check_reports (tbl : list site) (defs : list (string * string)) (slots : list rslot) : list string :=
  flat_map (check_slot tbl defs) slots.
