(** Model of the reference renaming of merge.rs (C09).

    Before the elements of a namespace are moved, merge.rs hands the rename table of that namespace to a
    hand-written rename_*_refs function which visits a fixed set of reference sites of module B
    (rename_objects, rename_compu_method_refs, rename_compu_tabs, rename_unit_refs, rename_record_layouts,
    rename_memory_segment_refs, rename_typedef_refs, rename_transformer_refs; lists through rename_item_list).
    A slot is one reference: the site it sits at and the name it holds.  [covered] says which sites the
    rename function of the namespace visits; the table is observed from the implementation on every run
    (checks/refprobe.py) and compared with ref/sites.json.

      rename_target   "if let Some(newname) = rename_table.get(&x) { x = newname }"
      rename_slot     the same, at a covered site; an uncovered site keeps its text            *)
From Coq Require Import List NArith Bool Ascii.
From A2L Require Import Text.Escape Lex.Tokenizer Lib.Merge.
Import ListNotations.

Record slot := mkSlot { sl_site : N; sl_target : name }.

Definition rename_target (ren : rmap) (t : name) : name :=
  match alist_get t ren with Some nn => nn | None => t end.
Definition rename_slot (covered : N -> bool) (ren : rmap) (s : slot) : slot :=
  if covered (sl_site s) then mkSlot (sl_site s) (rename_target ren (sl_target s)) else s.

(* the references of B after the merge of one namespace, and the namespace itself *)
Definition merge_with_refs (covered : N -> bool) (orig merge : list item) (slots : list slot)
  : option (list item * list slot) :=
  match calc_actions orig merge with
  | Some (act, ren) => Some (orig ++ push_items act ren merge, map (rename_slot covered ren) slots)
  | None => None
  end.

(* what a name designates in a namespace: ItemList::get *)
Definition resolve (t : name) (l : list item) : option item := lookup_first t l.
