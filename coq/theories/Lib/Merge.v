(** Model of a2lfile/src/merge.rs at the level of one namespace (C08).

    An item is a kind tag, a name and an opaque content id: the implementation decides by
    `*orig_object == *merge_object` (PartialEq of the whole element, name included) and by
    name lookups in an ItemList (first element with that name).  The content id stands for
    "everything in the element except its kind and name" at the moment
    calculate_item_actions runs.

      lookup_first          ItemList::get
      make_unique_name      merge.rs make_unique_name (the while loop, with explicit fuel)
      calc_actions          merge.rs calculate_item_actions (two HashMaps, insert overwrites)
      push_items            the per-kind "for x in merge_list { if Some(true) = action.get ..
                            rename_table.remove .. push }" loops; the kinds of one namespace
                            are visited in the order in which Module::objects()/typedefs()/
                            compu_tabs() list them, so one pass over the combined list is the
                            same sequence of pushes
      merge_ns              the two together: the result namespace of A after the merge

    GROUP and FUNCTION are merged by name only (merge_group / merge_function):
      merge_members         the "for item in merge_list { if !orig.contains { push } }" loops
      merge_grp_into        one iteration of the loop over B's groups
      merge_grps            the loop.                                                    *)
From Coq Require Import List NArith Bool Ascii.
From A2L Require Import Text.Escape Lex.Tokenizer Text.IntText.
Import ListNotations.

Definition name := bytes.
Record item := mkItem { it_kind : N; it_name : name; it_body : N }.

Definition item_eqb (a b : item) : bool :=
  N.eqb (it_kind a) (it_kind b) && bytes_eqb (it_name a) (it_name b) && N.eqb (it_body a) (it_body b).

Definition named (n : name) (i : item) : bool := bytes_eqb (it_name i) n.
Definition lookup_first (n : name) (l : list item) : option item := find (named n) l.
Definition has (n : name) (l : list item) : bool :=
  match lookup_first n l with Some _ => true | None => false end.

(* ---------- make_unique_name ---------- *)
Definition dot_merge : bytes := ["."; "M"; "E"; "R"; "G"; "E"]%char.
Definition suffix (idx : N) : bytes := if N.eqb idx 1 then [] else digits false 10 idx.
Definition candidate (n : name) (idx : N) : name := n ++ dot_merge ++ suffix idx.

Fixpoint unique_from (fuel : nat) (n : name) (idx : N) (orig merge : list item) : option name :=
  match fuel with
  | O => None
  | S f =>
      let c := candidate n idx in
      if has c merge || has c orig then unique_from f n (idx + 1)%N orig merge else Some c
  end.
Definition make_unique_name (n : name) (orig merge : list item) : option name :=
  unique_from (S (length orig + length merge)) n 1%N orig merge.

(* ---------- calculate_item_actions ---------- *)
(* HashMap<String, V>: association list, insert puts in front, get takes the first. *)
Fixpoint alist_get {V} (n : name) (m : list (name * V)) : option V :=
  match m with
  | [] => None
  | (k, v) :: r => if bytes_eqb k n then Some v else alist_get n r
  end.
Definition alist_remove {V} (n : name) (m : list (name * V)) : list (name * V) :=
  filter (fun kv => negb (bytes_eqb (fst kv) n)) m.

Definition amap := list (name * bool).
Definition rmap := list (name * name).

Definition action_step (orig merge : list item) (st : option (amap * rmap)) (m : item)
  : option (amap * rmap) :=
  match st with
  | None => None
  | Some (act, ren) =>
      let n := it_name m in
      match lookup_first n orig with
      | Some o =>
          if item_eqb o m then Some ((n, false) :: act, ren)
          else match make_unique_name n orig merge with
               | Some nn => Some ((n, true) :: act, (n, nn) :: ren)
               | None => None
               end
      | None => Some ((n, true) :: act, ren)
      end
  end.
Definition calc_actions (orig merge : list item) : option (amap * rmap) :=
  fold_left (action_step orig merge) merge (Some ([], [])).

(* ---------- the push loops ---------- *)
Definition set_name (i : item) (n : name) : item := mkItem (it_kind i) n (it_body i).

Fixpoint push_items (act : amap) (ren : rmap) (ms : list item) : list item :=
  match ms with
  | [] => []
  | m :: r =>
      match alist_get (it_name m) act with
      | Some true =>
          match alist_get (it_name m) ren with
          | Some nn => set_name m nn :: push_items act (alist_remove (it_name m) ren) r
          | None => m :: push_items act ren r
          end
      | _ => push_items act ren r
      end
  end.

Definition merge_ns (orig merge : list item) : option (list item) :=
  match calc_actions orig merge with
  | Some (act, ren) => Some (orig ++ push_items act ren merge)
  | None => None
  end.

(* the rename table the implementation hands to its rename_*_refs functions *)
Definition rename_table (orig merge : list item) : option rmap :=
  option_map snd (calc_actions orig merge).

(* ---------- GROUP / FUNCTION ---------- *)
Record grp := mkGrp { g_name : name; g_rest : N; g_lists : list (option (list name)) }.

Fixpoint mem (x : name) (l : list name) : bool :=
  match l with [] => false | y :: r => bytes_eqb y x || mem x r end.

Definition add_member (acc : list name) (x : name) : list name :=
  if mem x acc then acc else acc ++ [x].
Definition merge_members (o m : option (list name)) : option (list name) :=
  match o, m with
  | Some ol, Some ml => Some (fold_left add_member ml ol)
  | None, Some ml => Some ml
  | _, None => o
  end.
Fixpoint merge_lists (o m : list (option (list name))) : list (option (list name)) :=
  match o, m with
  | x :: o', y :: m' => merge_members x y :: merge_lists o' m'
  | _, _ => o
  end.

Fixpoint names_eqb (x y : list name) : bool :=
  match x, y with
  | [], [] => true
  | p :: x', q :: y' => bytes_eqb p q && names_eqb x' y'
  | _, _ => false
  end.
Definition olist_eqb (a b : option (list name)) : bool :=
  match a, b with
  | None, None => true
  | Some x, Some y => names_eqb x y
  | _, _ => false
  end.
Fixpoint lists_eqb (a b : list (option (list name))) : bool :=
  match a, b with
  | [], [] => true
  | x :: a', y :: b' => olist_eqb x y && lists_eqb a' b'
  | _, _ => false
  end.
Definition grp_eqb (a b : grp) : bool :=
  bytes_eqb (g_name a) (g_name b) && N.eqb (g_rest a) (g_rest b) && lists_eqb (g_lists a) (g_lists b).

Fixpoint merge_grp_into (orig : list grp) (g : grp) : list grp :=
  match orig with
  | [] => [g]
  | o :: r =>
      if bytes_eqb (g_name o) (g_name g) then
        if grp_eqb o g then o :: r
        else mkGrp (g_name o) (g_rest o) (merge_lists (g_lists o) (g_lists g)) :: r
      else o :: merge_grp_into r g
  end.
Definition merge_grps (orig merge : list grp) : list grp := fold_left merge_grp_into merge orig.
