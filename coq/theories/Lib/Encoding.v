(** Model of loader.rs decode_raw_bytes (encoding detection cascade UTF-32 -> UTF-16 -> UTF-8 ->
    Latin-1) and of the BOM removal in loader.rs load.  Bytes and Unicode scalar values are [N].
    A Rust String is modelled by its UTF-8 byte sequence.  All indexing of the Rust code is
    guarded by length checks; here it is pattern matching on the list, so the function is total
    by construction. *)
From Coq Require Import List NArith Bool.
Import ListNotations.
Local Open Scope N_scope.

Definition is_scalar (c : N) : bool := (c <? 0xD800) || ((0xDFFF <? c) && (c <=? 0x10FFFF)).   (* char::from_u32 *)

(* ---------- UTF-8 ---------- *)
Definition utf8_enc1 (c : N) : list N :=
  if c <? 0x80 then [c]
  else if c <? 0x800 then [0xC0 + c / 64; 0x80 + c mod 64]
  else if c <? 0x10000 then [0xE0 + c / 4096; 0x80 + (c / 64) mod 64; 0x80 + c mod 64]
  else [0xF0 + c / 262144; 0x80 + (c / 4096) mod 64; 0x80 + (c / 64) mod 64; 0x80 + c mod 64].
Definition utf8_enc (t : list N) : list N := flat_map utf8_enc1 t.

Definition is_cont (b : N) : bool := (0x80 <=? b) && (b <=? 0xBF).

(* String::from_utf8: strict (no overlong forms, no surrogates, nothing above U+10FFFF) *)
Fixpoint utf8_valid_fuel (fuel : nat) (l : list N) : bool :=
  match fuel with
  | O => match l with [] => true | _ => false end
  | S f =>
      match l with
      | [] => true
      | b0 :: r =>
          if b0 <? 0x80 then utf8_valid_fuel f r
          else if (0xC2 <=? b0) && (b0 <=? 0xDF) then
            match r with b1 :: r' => is_cont b1 && utf8_valid_fuel f r' | _ => false end
          else if (0xE0 <=? b0) && (b0 <=? 0xEF) then
            match r with
            | b1 :: b2 :: r' =>
                (if b0 =? 0xE0 then (0xA0 <=? b1) && (b1 <=? 0xBF)
                 else if b0 =? 0xED then (0x80 <=? b1) && (b1 <=? 0x9F)
                 else is_cont b1) && is_cont b2 && utf8_valid_fuel f r'
            | _ => false
            end
          else if (0xF0 <=? b0) && (b0 <=? 0xF4) then
            match r with
            | b1 :: b2 :: b3 :: r' =>
                (if b0 =? 0xF0 then (0x90 <=? b1) && (b1 <=? 0xBF)
                 else if b0 =? 0xF4 then (0x80 <=? b1) && (b1 <=? 0x8F)
                 else is_cont b1) && is_cont b2 && is_cont b3 && utf8_valid_fuel f r'
            | _ => false
            end
          else false
      end
  end.
Definition utf8_valid (l : list N) : bool := utf8_valid_fuel (length l) l.

(* ---------- UTF-16 (String::from_utf16: unpaired surrogates are an error) ---------- *)
Fixpoint utf16_dec_fuel (fuel : nat) (u : list N) : option (list N) :=
  match fuel with
  | O => match u with [] => Some [] | _ => None end
  | S f =>
      match u with
      | [] => Some []
      | a :: r =>
          if (a <? 0xD800) || (0xDFFF <? a) then option_map (cons a) (utf16_dec_fuel f r)
          else if a <=? 0xDBFF then
            match r with
            | b :: r' =>
                if (0xDC00 <=? b) && (b <=? 0xDFFF)
                then option_map (cons (0x10000 + (a - 0xD800) * 0x400 + (b - 0xDC00))) (utf16_dec_fuel f r')
                else None
            | [] => None
            end
          else None
      end
  end.
Definition utf16_dec (u : list N) : option (list N) := utf16_dec_fuel (length u) u.

Definition utf16_enc1 (c : N) : list N :=
  if c <? 0x10000 then [c] else [0xD800 + (c - 0x10000) / 0x400; 0xDC00 + (c - 0x10000) mod 0x400].

(* ---------- grouping of bytes ---------- *)
Fixpoint units2 (be : bool) (l : list N) : list N :=
  match l with
  | a :: b :: r => (if be then a * 256 + b else b * 256 + a) :: units2 be r
  | _ => []
  end.
Fixpoint units4 (be : bool) (l : list N) : list N :=
  match l with
  | a :: b :: c :: d :: r =>
      (if be then ((a * 256 + b) * 256 + c) * 256 + d else ((d * 256 + c) * 256 + b) * 256 + a) :: units4 be r
  | _ => []
  end.

Definition len (l : list N) : N := N.of_nat (length l).

(* ---------- decode_raw_bytes: the result String as UTF-8 bytes ---------- *)
Definition try_utf32 (fd : list N) : option (list N) :=
  if (len fd mod 4 =? 0) && (3 <? len fd) then
    match fd with
    | b0 :: b1 :: b2 :: b3 :: _ =>
        let conv :=
          if (b0 =? 0) && (b1 =? 0) && negb (b3 =? 0) then Some true
          else if negb (b0 =? 0) && (b2 =? 0) && (b3 =? 0) then Some false
          else None in
        match conv with
        | Some be => let cs := units4 be fd in
                     if forallb is_scalar cs then Some (utf8_enc cs) else None
        | None => None
        end
    | _ => None
    end
  else None.

Definition try_utf16 (fd : list N) : option (list N) :=
  if (len fd mod 2 =? 0) && (1 <? len fd) then
    match fd with
    | b0 :: b1 :: _ =>
        let conv :=
          if ((b0 =? 0) && negb (b1 =? 0)) || ((b0 =? 0xfe) && (b1 =? 0xff)) then Some true
          else if (negb (b0 =? 0) && (b1 =? 0)) || ((b0 =? 0xff) && (b1 =? 0xfe)) then Some false
          else None in
        match conv with
        | Some be => option_map utf8_enc (utf16_dec (units2 be fd))
        | None => None
        end
    | _ => None
    end
  else None.

Definition decode_raw_bytes (fd : list N) : list N :=
  match try_utf32 fd with
  | Some s => s
  | None =>
      match try_utf16 fd with
      | Some s => s
      | None => if utf8_valid fd then fd else utf8_enc fd       (* Latin-1: byte b is the char U+00bb *)
      end
  end.

(* loader.rs load: strip a leading U+FEFF (EF BB BF) when the string is longer than 2 bytes *)
Definition strip_bom (s : list N) : list N :=
  match s with
  | 0xEF :: 0xBB :: 0xBF :: r => r
  | _ => s
  end.
Definition load_text (fd : list N) : list N := strip_bom (decode_raw_bytes fd).

(* ---------- the ten encodings of a text given as scalar values ---------- *)
Inductive encoding := Utf8 | Utf8Bom | Utf16LE | Utf16BE | Utf16LEBom | Utf16BEBom | Utf32LE | Utf32BE | Utf32LEBom | Utf32BEBom.

Definition bytes2 (be : bool) (u : N) : list N := if be then [u / 256; u mod 256] else [u mod 256; u / 256].
Definition bytes4 (be : bool) (c : N) : list N :=
  if be then [c / 16777216; (c / 65536) mod 256; (c / 256) mod 256; c mod 256]
  else [c mod 256; (c / 256) mod 256; (c / 65536) mod 256; c / 16777216].

Definition enc16 (be : bool) (t : list N) : list N := flat_map (bytes2 be) (flat_map utf16_enc1 t).
Definition enc32 (be : bool) (t : list N) : list N := flat_map (bytes4 be) t.

Definition encode (e : encoding) (t : list N) : list N :=
  match e with
  | Utf8 => utf8_enc t
  | Utf8Bom => utf8_enc (0xFEFF :: t)
  | Utf16LE => enc16 false t
  | Utf16BE => enc16 true t
  | Utf16LEBom => enc16 false (0xFEFF :: t)
  | Utf16BEBom => enc16 true (0xFEFF :: t)
  | Utf32LE => enc32 false t
  | Utf32BE => enc32 true t
  | Utf32LEBom => enc32 false (0xFEFF :: t)
  | Utf32BEBom => enc32 true (0xFEFF :: t)
  end.
