(** ifdata.rs remove_unknown_ifdata (A2lFile::ifdata_cleanup): every IF_DATA block whose content could not be
    interpreted (ifdata_valid = false) is removed, at every place where the grammar allows IF_DATA (C18).
    The implementation lists those places by hand (MODULE, MEMORY_LAYOUT, MEMORY_SEGMENT, AXIS_PTS, BLOB, CHARACTERISTIC,
    FRAME, FUNCTION, GROUP, INSTANCE, MEASUREMENT); the model removes them wherever they are, and a closed obligation
    states that the grammar has no other place. *)
From Coq Require Import String List Bool NArith.
From A2L Require Import Text.Escape Gram.Spec A2ml.Types Gram.PState Gram.Parser.
Import ListNotations.

Definition keep_ifdata (v : value) : bool :=
  match v with VIfData _ _ false => false | _ => true end.

Fixpoint cleanup_value (fuel : nat) (v : value) : value :=
  match fuel with
  | O => v
  | S f =>
      match v with
      | VNode ty lay fields kids cms =>
          VNode ty lay fields (map (fun g => map (cleanup_value f) (filter keep_ifdata g)) kids) cms
      | other => other
      end
  end.

Fixpoint vdepth_fuel (fuel : nat) (v : value) : nat :=
  match fuel with
  | O => 0
  | S f =>
      match v with
      | VNode _ _ _ kids _ => S (fold_right (fun g m => Nat.max (fold_right (fun k j => Nat.max (vdepth_fuel f k) j) 0 g) m) 0 kids)
      | _ => 1
      end
  end.

(* the element types under which the grammar allows IF_DATA *)
Definition ifdata_parents (S : spec) : list string :=
  map t_name (filter (fun td => existsb (fun it => match it with
                                                    | ITagged _ _ tis => existsb (fun ti => String.eqb (ti_type ti) "IfData") tis
                                                    | _ => false
                                                    end) (t_items td)) S).
