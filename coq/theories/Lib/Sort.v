(** Model of a2lfile/src/sort.rs (sort, sort_new_items) and of the part of
    a2lfile/src/writer.rs that decides the output order (Writer::sort_function,
    stable sort in add_group), restricted to the contents of one MODULE.

    An element is its kind tag, name, payload id and the three layout fields the
    functions touch.  uids are u32: multiplication and addition are checked
    ([debug = true]: overflow panics, as in a debug build; [debug = false]: wraps
    modulo 2^32, as in a release build). *)
From Coq Require Import String List ZArith Bool Lia.
From A2L Require Import Base.Res Base.StrCmp Base.StableSort.
Import ListNotations.
Local Open Scope Z_scope.

Record el := mkEl {
  e_tag : string; e_name : string; e_pay : N;
  e_uid : Z; e_line : Z; e_so : Z; e_eo : Z }.

Definition set_uid (e : el) (u : Z) : el :=
  mkEl (e_tag e) (e_name e) (e_pay e) u (e_line e) (e_so e) (e_eo e).
Definition set_uid_so (e : el) (u so : Z) : el :=
  mkEl (e_tag e) (e_name e) (e_pay e) u (e_line e) so (e_eo e).
Definition set_layout (e : el) (u so eo : Z) : el :=
  mkEl (e_tag e) (e_name e) (e_pay e) u (e_line e) so eo.

Definition U32 : Z := 4294967296.

Definition mul2 (debug : bool) (u : Z) : Res Z :=
  if 2 * u <? U32 then Ok (2 * u)
  else if debug then Panic "sort.rs: attempt to multiply with overflow" else Ok ((2 * u) mod U32).
Definition add1 (debug : bool) (u : Z) : Res Z :=
  if u + 1 <? U32 then Ok (u + 1)
  else if debug then Panic "sort.rs: attempt to add with overflow" else Ok ((u + 1) mod U32).

(* ---------- cmp_named_a2lobject (sort.rs) and Writer::sort_function (writer.rs) ---------- *)
(* both have the same shape; the last key is the name resp. the tag *)
Definition cmp_uid_line (u1 l1 u2 l2 : Z) (last : comparison) : comparison :=
  if (u1 =? 0) && negb (u2 =? 0) then Gt
  else if (u2 =? 0) && negb (u1 =? 0) then Lt
  else if u1 =? u2 then (if l1 =? l2 then last else Z.compare l1 l2)
  else Z.compare u1 u2.

Definition cmp_named (a b : el) : comparison :=
  cmp_uid_line (e_uid a) (e_line a) (e_uid b) (e_line b) (str_cmp (e_name a) (e_name b)).
Definition sort_function (a b : el) : comparison :=
  cmp_uid_line (e_uid a) (e_line a) (e_uid b) (e_line b) (str_cmp (e_tag a) (e_tag b)).

Definition leb_of (c : el -> el -> comparison) (a b : el) : bool :=
  match c a b with Gt => false | _ => true end.

(* ---------- sort_objectlist_new ---------- *)
Fixpoint sol_new_loop (debug : bool) (l : list el) (last_uid : Z) : Res (list el) :=
  match l with
  | [] => Ok []
  | e :: r =>
      if negb (e_uid e =? 0) then
        u2 <- mul2 debug (e_uid e) ;;
        nl <- add1 debug u2 ;;
        r' <- sol_new_loop debug r nl ;;
        Ok (set_uid e u2 :: r')
      else
        r' <- sol_new_loop debug r last_uid ;;
        Ok (set_layout e last_uid 2 1 :: r')
  end.
Definition sort_objectlist_new (debug : bool) (l : list el) : Res (list el) :=
  sol_new_loop debug (ssort (leb_of cmp_named) l) 0.

(* ---------- sort_optional_item ---------- *)
Definition sort_optional_item (debug : bool) (o : option el) (new_uid : Z) : Res (option el * Z) :=
  match o with
  | None => Ok (None, new_uid)
  | Some e =>
      if e_uid e =? 0 then Ok (Some (set_uid e new_uid), new_uid)
      else u2 <- mul2 debug (e_uid e) ;; n <- add1 debug u2 ;; Ok (Some (set_uid e u2), n)
  end.

(* if_data / user_rights: doubled, new ones get maxid*2+1, nothing happens when maxid = 0 *)
Definition list_max (l : list el) : option Z :=
  match l with
  | [] => None
  | e :: r => Some (fold_left Z.max (map e_uid r) (e_uid e))
  end.
Fixpoint renum_vec (debug : bool) (maxid : Z) (l : list el) : Res (list el) :=
  match l with
  | [] => Ok []
  | e :: r =>
      u <- (if negb (e_uid e =? 0) then mul2 debug (e_uid e)
            else (m2 <- mul2 debug maxid ;; add1 debug m2)) ;;
      r' <- renum_vec debug maxid r ;;
      Ok (set_uid e u :: r')
  end.
Definition sort_vec_new (debug : bool) (l : list el) : Res (list el) :=
  match list_max l with
  | Some maxid => if 0 <? maxid then renum_vec debug maxid l else Ok l
  | None => Ok l
  end.

Fixpoint dbl_comments (debug : bool) (l : list Z) : Res (list Z) :=
  match l with
  | [] => Ok []
  | u :: r => u2 <- mul2 debug u ;; r' <- dbl_comments debug r ;; Ok (u2 :: r')
  end.

(* ---------- the module ---------- *)
Record module := mkMod {
  m_a2ml : option el; m_mod_common : option el; m_mod_par : option el; m_variant_coding : option el;
  m_if_data : list el; m_user_rights : list el;
  m_comments : list Z;
  m_lists : list (list el)    (* the 20 ItemLists in the order sort_new_items visits them *)
}.

Fixpoint map_res {A B} (f : A -> Res B) (l : list A) : Res (list B) :=
  match l with
  | [] => Ok []
  | a :: r => b <- f a ;; r' <- map_res f r ;; Ok (b :: r')
  end.

Definition sort_new_items_module (debug : bool) (m : module) : Res module :=
  '(a2ml, n1) <- sort_optional_item debug (m_a2ml m) 1 ;;
  '(mc, n2) <- sort_optional_item debug (m_mod_common m) n1 ;;
  '(mp, _) <- sort_optional_item debug (m_mod_par m) n2 ;;
  lists <- map_res (sort_objectlist_new debug) (m_lists m) ;;
  cm <- dbl_comments debug (m_comments m) ;;
  ifd <- sort_vec_new debug (m_if_data m) ;;
  ur <- sort_vec_new debug (m_user_rights m) ;;
  '(vc, _) <- sort_optional_item debug (m_variant_coding m) 0 ;;
  Ok (mkMod a2ml mc mp vc ifd ur cm lists).

(* ---------- writer order of a module's children ---------- *)
Definition opt_list (o : option el) : list el := match o with Some e => [e] | None => [] end.
Definition tgroup (m : module) : list el :=
  opt_list (m_a2ml m) ++ concat (m_lists m) ++ m_if_data m ++ opt_list (m_mod_common m) ++
  opt_list (m_mod_par m) ++ m_user_rights m ++ opt_list (m_variant_coding m).
Definition writer_order (m : module) : list el := ssort (leb_of sort_function) (tgroup m).

(* ---------- sort (full canonical sort) ---------- *)
Fixpoint number_from (l : list el) (uid : Z) : list el * Z :=
  match l with
  | [] => ([], uid)
  | e :: r => let '(r', u') := number_from r (uid + 1) in (set_layout e uid 2 1 :: r', u')
  end.
Definition name_leb (a b : el) : bool := match str_cmp (e_name a) (e_name b) with Gt => false | _ => true end.
Definition sort_objectlist_full (l : list el) (start : Z) : list el * Z :=
  number_from (ssort name_leb l) start.

Fixpoint number_so (l : list el) (uid : Z) : list el * Z :=
  match l with
  | [] => ([], uid)
  | e :: r => let '(r', u') := number_so r (uid + 1) in (set_uid_so e uid 2 :: r', u')
  end.

(* [order]: for each position in the canonical kind order, the index into m_lists;
   [lists] are visited in that order, results are stored back at their index *)
Fixpoint sort_lists (order : list nat) (lists : list (list el)) (uid : Z) : list (list el) * Z :=
  match order with
  | [] => (lists, uid)
  | k :: r =>
      match nth_error lists k with
      | None => sort_lists r lists uid
      | Some l =>
          let '(l', u') := sort_objectlist_full l uid in
          sort_lists r (firstn k lists ++ l' :: skipn (S k) lists) u'
      end
  end.



Definition sort_module (order : list nat) (m : module) : module :=
  let a2ml := option_map (fun e => set_uid_so e 1 1) (m_a2ml m) in
  let mc := option_map (fun e => set_uid_so e 2 2) (m_mod_common m) in
  let mp := option_map (fun e => set_uid_so e 3 2) (m_mod_par m) in
  let '(ifd, u1) := number_so (m_if_data m) 4 in
  let '(lists, u2) := sort_lists order (m_lists m) u1 in
  let '(ur, u3) := number_so (ssort name_leb (m_user_rights m)) u2 in
  let vc := option_map (fun e => set_uid_so e u3 2) (m_variant_coding m) in
  mkMod a2ml mc mp vc ifd ur [] lists.

(* the order in which sort.rs::sort visits the 20 lists, as indices into the
   sort_new_items order (alphabetical by field name):
   0 axis_pts 1 blob 2 characteristic 3 compu_method 4 compu_tab 5 compu_vtab 6 compu_vtab_range
   7 frame 8 function 9 group 10 instance 11 measurement 12 record_layout 13 transformer
   14 typedef_axis 15 typedef_blob 16 typedef_characteristic 17 typedef_measurement
   18 typedef_structure 19 unit *)
Definition canonical_order : list nat :=
  [2; 11; 0; 10; 1; 3; 4; 5; 6; 18; 16; 17; 14; 15; 7; 8; 9; 12; 13; 19]%nat.
