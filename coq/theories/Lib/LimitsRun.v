(** Bit patterns of binary64 values and decoding of correspondence cases for Lib/Limits.v. *)
From Coq Require Import ZArith Floats List Bool.
From A2L Require Import Lib.Limits.
Import ListNotations.
Close Scope float_scope.
Open Scope Z_scope.
(* ---------- bit patterns (for the correspondence check) ---------- *)

Definition sf_of_bits (z : Z) : spec_float :=
  let s := Z.odd (z / 2 ^ 63) in
  let e := (z / 2 ^ 52) mod 2 ^ 11 in
  let m := z mod 2 ^ 52 in
  if e =? 2047 then (if m =? 0 then S754_infinity s else S754_nan)
  else if e =? 0 then
    match m with
    | Zpos p => S754_finite s p (-1074)
    | _ => S754_zero s
    end
  else
    match m + 2 ^ 52 with
    | Zpos p => S754_finite s p (e - 1075)
    | _ => S754_nan
    end.
Definition float_of_bits (z : Z) : float := SF2Prim (sf_of_bits z).

Definition bits_of_float (f : float) : Z :=
  match Prim2SF f with
  | S754_nan => 0x7FF8000000000000
  | S754_zero s => if s then 2 ^ 63 else 0
  | S754_infinity s => (if s then 2 ^ 63 else 0) + 2047 * 2 ^ 52
  | S754_finite s m e =>
      let sg := if s then 2 ^ 63 else 0 in
      if 2 ^ 52 <=? Zpos m then sg + (e + 1075) * 2 ^ 52 + (Zpos m - 2 ^ 52)
      else sg + Zpos m
  end.

Definition dtype_of_Z (z : Z) : dtype :=
  match z with
  | 0 => Ubyte | 1 => Sbyte | 2 => Uword | 3 => Sword | 4 => Ulong | 5 => Slong | 6 => AUint64 | 7 => AInt64
  | 8 => Float16Ieee | 9 => Float32Ieee | _ => Float64Ieee
  end.
Definition okind_of_Z (z : Z) : okind :=
  (* 5, 6: a standard axis that is the second / third AXIS_DESCR of a MAP / CUBOID; 7-9: CHARACTERISTIC of type ASCII, VAL_BLK,
     CURVE; 10, 11: TYPEDEF_CHARACTERISTIC of type VALUE, ASCII *)
  match z with 0 => KMeasurement | 1 | 7 | 8 | 9 | 10 | 11 => KCharacteristic | 2 => KAxisPts | 3 | 5 | 6 => KAxisDescrStd | _ => KTypedefMeasurement end.
Definition conv_of_Z (k : Z) (cs : list Z) : conv :=
  let f i := float_of_bits (nth i cs 0) in
  match k with
  | 0 => CNone | 1 => CForm
  | 2 => CLinear None | 3 => CLinear (Some (f 0%nat, f 1%nat))
  | 4 => CRatFunc None | 5 => CRatFunc (Some (f 0%nat, f 1%nat, f 2%nat, f 3%nat, f 4%nat, f 5%nat))
  | 6 => CIdentical | 7 => CTabIntp | 8 => CTabNointp | _ => CTabVerb
  end.

(* one correspondence case: object kind, data type, conversion, declared limits -> (error?, calc lo, calc hi) *)
Definition run_case (k d ck : Z) (cs : list Z) (lo hi : Z) : list Z :=
  let c := conv_of_Z ck cs in
  let dt := dtype_of_Z d in
  let calc := calc_compu_method_limits c dt in
  [ (if limit_error (okind_of_Z k) (float_of_bits lo, float_of_bits hi) c dt then 1 else 0);
    bits_of_float (fst calc); bits_of_float (snd calc) ].
