(** Model of the limit plausibility check of a2lfile/src/checker.rs:
    get_datatype_limits, calc_compu_method_limits, check_limits_valid and the comparison
    used for TYPEDEF_MEASUREMENT.  Arithmetic is IEEE-754 binary64 (Coq primitive floats:
    +, -, *, /, abs, <, <=, == are bit-exact with Rust's f64). *)
From Coq Require Import ZArith Floats List Bool.
Import ListNotations.
Local Open Scope float_scope.

Inductive dtype := Ubyte | Sbyte | Uword | Sword | Ulong | Slong | AUint64 | AInt64
                 | Float16Ieee | Float32Ieee | Float64Ieee.

Definition f64_max : float := 0x1.fffffffffffffp1023.
Definition f32_max : float := 0x1.fffffep127.

Definition get_datatype_limits (d : dtype) : float * float :=
  match d with
  | Ubyte => (0, 255)
  | Sbyte => (-128, 127)
  | Uword => (0, 65535)
  | Sword => (-32768, 32767)
  | Ulong => (0, 4294967295)
  | Slong => (-2147483648, 2147483647)
  | AUint64 => (0, 0x1p64)                 (* 18446744073709551615.0 rounds to 2^64 *)
  | AInt64 => (-0x1p63, 0x1p63)            (* 9223372036854775807.0 rounds to 2^63 *)
  | Float16Ieee => (-65504, 65504)
  | Float32Ieee => (-f32_max, f32_max)
  | Float64Ieee => (-f64_max, f64_max)
  end.

(* the COMPU_METHOD as far as the limit calculation looks at it *)
Inductive conv :=
| CNone                                   (* NO_COMPU_METHOD / name does not resolve *)
| CForm
| CLinear (coeffs : option (float * float))
| CRatFunc (coeffs : option (float * float * float * float * float * float))
| CIdentical | CTabIntp | CTabNointp | CTabVerb.

Definition calc_compu_method_limits (c : conv) (d : dtype) : float * float :=
  let '(lower_limit, upper_limit) := get_datatype_limits d in
  match c with
  | CNone => (lower_limit, upper_limit)
  | CForm => (-f64_max, f64_max)
  | CLinear None => (lower_limit, upper_limit)
  | CLinear (Some (a, b)) =>
      if 0 <=? a then (a * lower_limit + b, a * upper_limit + b)
      else (a * upper_limit + b, a * lower_limit + b)
  | CRatFunc None => (lower_limit, upper_limit)
  | CRatFunc (Some (a, b, c, d, e, f)) =>
      if (a =? 0) && (d =? 0) && (e =? 0) && negb (f =? 0) then
        let func := fun y => f * (y / b) - (c / b) in
        let lo := func lower_limit in
        let hi := func upper_limit in
        if hi <? lo then (hi, lo) else (lo, hi)
      else (-f64_max, f64_max)
  | CIdentical | CTabIntp | CTabNointp | CTabVerb => (lower_limit, upper_limit)
  end.

Definition one_millionth : float := 0x1.0c6f7a0b5ed8dp-20.   (* the f64 nearest to 1E-6 *)

Definition check_limits_valid (existing calculated : float * float) : bool :=
  let epsilon_lower := abs (fst calculated * one_millionth) in
  let epsilon_upper := abs (snd calculated * one_millionth) in
  (fst calculated - fst existing <=? epsilon_lower) && (snd existing - snd calculated <=? epsilon_upper).

(* TYPEDEF_MEASUREMENT compares without tolerance *)
Definition typedef_measurement_error (existing calculated : float * float) : bool :=
  (fst existing <? fst calculated) || (snd calculated <? snd existing).

Inductive okind := KMeasurement | KCharacteristic | KAxisPts | KAxisDescrStd | KTypedefMeasurement.

Definition limit_error (k : okind) (existing : float * float) (c : conv) (d : dtype) : bool :=
  let calc := calc_compu_method_limits c d in
  (* all five kinds use the same tolerant comparison (TYPEDEF_MEASUREMENT since the repair 086bb2a) *)
  match k with
  | _ => negb (check_limits_valid existing calc)
  end.

