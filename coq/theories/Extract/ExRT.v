From A2L Require Import Run.RunRT.
Require Import ExtrOcamlBasic ExtrOcamlString.
Extraction "rt.ml" run_rt.
