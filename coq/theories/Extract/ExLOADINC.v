From A2L Require Import Run.RunLoad.
Require Import ExtrOcamlBasic ExtrOcamlString.
Extraction "loadinc.ml" run_loadinc.
