From A2L Require Import Run.RunLoad.
Require Import ExtrOcamlBasic ExtrOcamlString.
Extraction "load.ml" run_load.
