From A2L Require Import Run.RunC08.
Require Import ExtrOcamlBasic ExtrOcamlString.
Extraction "c08.ml" run_c08.
