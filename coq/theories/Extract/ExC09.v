From A2L Require Import Run.RunC09.
Require Import ExtrOcamlBasic ExtrOcamlString.
Extraction "c09.ml" run_c09.
