From A2L Require Import Run.RunC10.
Require Import ExtrOcamlBasic ExtrOcamlString.
Extraction "c10.ml" run_c10.
