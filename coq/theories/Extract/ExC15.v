From A2L Require Import Run.RunC15.
Require Import ExtrOcamlBasic ExtrOcamlString.
Extraction "c15.ml" run_c15.
