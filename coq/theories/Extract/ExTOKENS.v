From A2L Require Import Run.RunLoad.
Require Import ExtrOcamlBasic ExtrOcamlString.
Extraction "tokens.ml" run_tokens.
