From A2L Require Import Run.RunC17.
Require Import ExtrOcamlBasic ExtrOcamlString.
Extraction "c17.ml" run_c17.
