From A2L Require Import Run.RunC11.
Require Import ExtrOcamlBasic ExtrOcamlString.
Extraction "c11.ml" run_c11.
