From A2L Require Import Run.RunC13.
Require Import ExtrOcamlBasic ExtrOcamlString.
Extraction "c13.ml" run_c13.
