From A2L Require Import Run.RunC19.
Require Import ExtrOcamlBasic ExtrOcamlString.
Extraction "c19.ml" run_c19.
