From A2L Require Import Run.RunC15.
Require Import ExtrOcamlBasic ExtrOcamlString.
Extraction "c14.ml" run_c14.
