From A2L Require Import Run.RunLoad.
Require Import ExtrOcamlBasic ExtrOcamlString.
Extraction "loadclean.ml" run_loadclean.
