(** Stable insertion sort, generic.  Rust's slice::sort_by is a stable sort; for a comparator
    that is a total preorder the result of any stable sort is unique, so insertion sort that
    keeps equal elements in input order is a faithful model of its result. *)
From Coq Require Import List Bool Sorting.Sorted Permutation.
Import ListNotations.

Section S.
  Context {A : Type}.
  Variable le : A -> A -> bool.

  Fixpoint ins (x : A) (l : list A) : list A :=
    match l with
    | [] => [x]
    | y :: r => if le x y then x :: y :: r else y :: ins x r
    end.
  Fixpoint ssort (l : list A) : list A :=
    match l with [] => [] | x :: r => ins x (ssort r) end.

  Lemma ins_perm x l : Permutation (ins x l) (x :: l).
  Proof.
    induction l as [|y r IH]; simpl; [reflexivity|].
    destruct (le x y); [reflexivity|]. rewrite IH. apply perm_swap.
  Qed.
  Lemma ssort_perm l : Permutation (ssort l) l.
  Proof.
    induction l as [|x r IH]; simpl; [reflexivity|]. rewrite ins_perm. constructor. exact IH.
  Qed.

  Definition leP (a b : A) : Prop := le a b = true.

  (* a locally sorted list is left untouched (no totality / transitivity needed) *)
  Lemma ins_head x l : HdRel leP x l -> ins x l = x :: l.
  Proof. intros H. destruct l as [|y r]; simpl; [reflexivity|]. inversion H as [|? ? Hxy]; subst. unfold leP in Hxy. rewrite Hxy. reflexivity. Qed.

  Lemma ssort_sorted_id l : Sorted leP l -> ssort l = l.
  Proof.
    induction 1 as [|x r Hs IH Hd]; simpl; [reflexivity|]. rewrite IH. apply ins_head. exact Hd.
  Qed.

  Hypothesis le_total : forall a b, le a b = true \/ le b a = true.
  Hypothesis le_trans : forall a b c, le a b = true -> le b c = true -> le a c = true.

  Lemma ins_hdrel a x l : leP a x -> HdRel leP a l -> HdRel leP a (ins x l).
  Proof.
    intros Hax Hal. destruct l as [|y r]; simpl; [constructor; exact Hax|].
    destruct (le x y); constructor; [exact Hax|]. inversion Hal; assumption.
  Qed.

  Lemma ins_sorted x l : Sorted leP l -> Sorted leP (ins x l).
  Proof.
    induction 1 as [|y r Hs IH Hd]; simpl; [repeat constructor|].
    destruct (le x y) eqn:E.
    - constructor; [constructor; assumption | constructor; exact E].
    - constructor; [exact IH|]. apply ins_hdrel; [|exact Hd].
      destruct (le_total x y) as [H|H]; [congruence | exact H].
  Qed.

  Lemma ssort_sorted l : Sorted leP (ssort l).
  Proof. induction l as [|x r IH]; simpl; [constructor | apply ins_sorted; exact IH]. Qed.

  Lemma ssort_strongly_sorted l : StronglySorted leP (ssort l).
  Proof.
    apply Sorted_StronglySorted; [|apply ssort_sorted].
    intros a b c. apply le_trans.
  Qed.

  Lemma ssort_idempotent l : ssort (ssort l) = ssort l.
  Proof. apply ssort_sorted_id, ssort_sorted. Qed.

  (* stability, in the form used for groups of mixed kinds: sorting and then picking the elements of one kind is picking
     them first and sorting them *)
  Lemma ins_front x l : Forall (fun z => le x z = true) l -> ins x l = x :: l.
  Proof. intros H. destruct l as [|y r]; [reflexivity|]. simpl. inversion H as [|? ? Hy _]; subst. rewrite Hy. reflexivity. Qed.

  Lemma ins_filter (p : A -> bool) x l : StronglySorted leP l ->
    filter p (ins x l) = if p x then ins x (filter p l) else filter p l.
  Proof.
    induction 1 as [|y r Hs IH Hy]; simpl; [destruct (p x); reflexivity|].
    destruct (le x y) eqn:E.
    - simpl. destruct (p x); [|reflexivity]. symmetry. apply ins_front.
      assert (Hall : Forall (fun z => le x z = true) (y :: r)).
      { constructor; [exact E|]. eapply Forall_impl; [|exact Hy]. intros z Hz. exact (le_trans x y z E Hz). }
      change (Forall (fun z => le x z = true) (filter p (y :: r))).
      clear - Hall. induction Hall as [|z l Hz Hl IHl]; simpl; [constructor|]. destruct (p z); [constructor; assumption | exact IHl].
    - simpl. rewrite IH. destruct (p y), (p x); simpl; try rewrite E; reflexivity.
  Qed.

  Lemma filter_ssort (p : A -> bool) l : filter p (ssort l) = ssort (filter p l).
  Proof.
    induction l as [|x r IH]; [reflexivity|]. cbn [ssort]. rewrite ins_filter by apply ssort_strongly_sorted.
    simpl. destruct (p x); [cbn [ssort]; rewrite IH; reflexivity | exact IH].
  Qed.
End S.
