(** Bytewise lexicographic comparison of strings (Rust's str::cmp / [u8]::cmp). *)
From Coq Require Import String Ascii Arith Lia.

Fixpoint str_cmp (a b : string) : comparison :=
  match a, b with
  | EmptyString, EmptyString => Eq
  | EmptyString, String _ _ => Lt
  | String _ _, EmptyString => Gt
  | String x a', String y b' =>
      match Nat.compare (nat_of_ascii x) (nat_of_ascii y) with
      | Eq => str_cmp a' b'
      | c => c
      end
  end.

Lemma nat_of_ascii_inj x y : nat_of_ascii x = nat_of_ascii y -> x = y.
Proof. intros H. rewrite <- (ascii_nat_embedding x), <- (ascii_nat_embedding y), H. reflexivity. Qed.

Lemma str_cmp_refl a : str_cmp a a = Eq.
Proof. induction a as [|x a IH]; simpl; [reflexivity|]. rewrite Nat.compare_refl. exact IH. Qed.

Lemma str_cmp_eq a : forall b, str_cmp a b = Eq -> a = b.
Proof.
  induction a as [|x a IH]; intros [|y b] H; simpl in H; try discriminate; [reflexivity|].
  destruct (Nat.compare (nat_of_ascii x) (nat_of_ascii y)) eqn:E; try discriminate.
  apply Nat.compare_eq in E. apply nat_of_ascii_inj in E. subst. f_equal. apply IH, H.
Qed.

Lemma str_cmp_antisym a : forall b, str_cmp b a = CompOpp (str_cmp a b).
Proof.
  induction a as [|x a IH]; intros [|y b]; simpl; try reflexivity.
  rewrite (Nat.compare_antisym (nat_of_ascii x) (nat_of_ascii y)).
  destruct (Nat.compare (nat_of_ascii x) (nat_of_ascii y)); simpl; auto.
Qed.

Lemma str_cmp_trans_lt a : forall b c, str_cmp a b = Lt -> str_cmp b c = Lt -> str_cmp a c = Lt.
Proof.
  induction a as [|x a IH]; intros [|y b] [|z c] H1 H2; simpl in *; try discriminate; try reflexivity.
  destruct (Nat.compare (nat_of_ascii x) (nat_of_ascii y)) eqn:E1; try discriminate;
  destruct (Nat.compare (nat_of_ascii y) (nat_of_ascii z)) eqn:E2; try discriminate.
  - apply Nat.compare_eq in E1, E2. rewrite E1, E2, Nat.compare_refl. eapply IH; eauto.
  - apply Nat.compare_eq in E1. rewrite E1, E2. reflexivity.
  - apply Nat.compare_eq in E2. rewrite <- E2, E1. reflexivity.
  - apply Nat.compare_lt_iff in E1, E2.
    assert (E : Nat.compare (nat_of_ascii x) (nat_of_ascii z) = Lt) by (apply Nat.compare_lt_iff; lia).
    rewrite E. reflexivity.
Qed.

Definition str_le (a b : string) : bool := match str_cmp a b with Gt => false | _ => true end.

Lemma str_le_total a b : str_le a b = true \/ str_le b a = true.
Proof. unfold str_le. rewrite (str_cmp_antisym a b). destruct (str_cmp a b); simpl; auto. Qed.

Lemma str_le_trans a b c : str_le a b = true -> str_le b c = true -> str_le a c = true.
Proof.
  unfold str_le. intros H1 H2.
  destruct (str_cmp a b) eqn:E1; try discriminate; destruct (str_cmp b c) eqn:E2; try discriminate.
  - apply str_cmp_eq in E1, E2. subst. rewrite str_cmp_refl. reflexivity.
  - apply str_cmp_eq in E1. subst. rewrite E2. reflexivity.
  - apply str_cmp_eq in E2. subst. rewrite E1. reflexivity.
  - rewrite (str_cmp_trans_lt _ _ _ E1 E2). reflexivity.
Qed.

Lemma str_le_antisym a b : str_le a b = true -> str_le b a = true -> a = b.
Proof.
  unfold str_le. rewrite (str_cmp_antisym a b). destruct (str_cmp a b) eqn:E; simpl; try discriminate.
  intros _ _. apply str_cmp_eq, E.
Qed.
