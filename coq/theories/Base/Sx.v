(** Generic s-expression exchanged between the case files, the extracted model
    driver and the Rust harness.  Text syntax (one value per line):
      i<hex> | i-<hex>      integer
      s<hex bytes>          byte string
      ( v v ... )           list                                         *)
From Coq Require Import String ZArith List.
Import ListNotations.

Inductive sx : Type :=
| SZ (z : Z)
| SS (s : string)
| SL (l : list sx).

Definition sx_bool (b : bool) : sx := SZ (if b then 1 else 0)%Z.
Definition sx_nat (n : nat) : sx := SZ (Z.of_nat n).
Definition sx_N (n : N) : sx := SZ (Z.of_N n).
Definition sx_opt {A} (f : A -> sx) (o : option A) : sx :=
  match o with None => SL [] | Some a => SL [f a] end.
Definition sx_list {A} (f : A -> sx) (l : list A) : sx := SL (map f l).
Definition sx_err (tag : string) (msg : string) : sx := SL [SS tag; SS msg].

Definition sx_to_nat (x : sx) : option nat :=
  match x with SZ z => if (z <? 0)%Z then None else Some (Z.to_nat z) | _ => None end.
Definition sx_to_N (x : sx) : option N :=
  match x with SZ z => if (z <? 0)%Z then None else Some (Z.to_N z) | _ => None end.
Definition sx_to_Z (x : sx) : option Z :=
  match x with SZ z => Some z | _ => None end.
Definition sx_to_string (x : sx) : option string :=
  match x with SS s => Some s | _ => None end.
Definition sx_to_bool (x : sx) : option bool :=
  match x with SZ z => Some (negb (z =? 0)%Z) | _ => None end.

Fixpoint opt_map_all {A B} (f : A -> option B) (l : list A) : option (list B) :=
  match l with
  | [] => Some []
  | a :: r => match f a, opt_map_all f r with
              | Some b, Some bs => Some (b :: bs)
              | _, _ => None
              end
  end.
Definition sx_to_list {A} (f : sx -> option A) (x : sx) : option (list A) :=
  match x with SL l => opt_map_all f l | _ => None end.

Definition bad_case : sx := SL [SS "BADCASE"].
