(** List lemmas missing from the Coq 8.16 standard library. *)
From Coq Require Import List Arith Lia.
Import ListNotations.

Lemma NoDup_app_iff {A} (a b : list A) :
  NoDup (a ++ b) <-> NoDup a /\ NoDup b /\ (forall x, In x a -> In x b -> False).
Proof.
  induction a as [|x r IH]; simpl.
  - split; [intros H; repeat split; auto; constructor | tauto].
  - split.
    + intros H. inversion H as [|? ? Hx Hr]; subst. apply IH in Hr. destruct Hr as (Ha & Hb & Hd).
      split; [constructor; auto; intro; apply Hx; apply in_or_app; auto|].
      split; [exact Hb|]. intros y [<-|Hy] Hyb; [apply Hx; apply in_or_app; auto | eapply Hd; eauto].
    + intros (Ha & Hb & Hd). inversion Ha as [|? ? Hx Hr]; subst. constructor.
      * intro H. apply in_app_or in H. destruct H as [H|H]; [auto | eapply Hd; eauto].
      * apply IH. repeat split; auto. intros y Hy. apply Hd. auto.
Qed.

Lemma firstn_skipn_nth {A} (l : list A) i x :
  nth_error l i = Some x -> l = firstn i l ++ x :: skipn (S i) l.
Proof.
  revert i; induction l as [|y r IH]; intros [|i] H; simpl in *; try discriminate.
  - inversion H; reflexivity.
  - f_equal. apply IH. exact H.
Qed.

Lemma map_id_in {A} (f : A -> A) l : (forall x, In x l -> f x = x) -> map f l = l.
Proof.
  induction l as [|x r IH]; simpl; intros H; [reflexivity|]. rewrite H by (left; reflexivity). f_equal.
  apply IH. intros; apply H; right; assumption.
Qed.
Lemma filter_all {A} (p : A -> bool) l : (forall x, In x l -> p x = true) -> filter p l = l.
Proof.
  induction l as [|x r IH]; simpl; intros H; [reflexivity|]. rewrite H by (left; reflexivity). f_equal.
  apply IH. intros; apply H; right; assumption.
Qed.
