(** Result type of every modelled Rust operation.
    [Ok a]     normal return
    [Err e]    the Rust function returned an error value (class [e])
    [Panic s]  the Rust code would panic (index/slice out of bounds, unwrap on None,
               arithmetic overflow in a debug build ...) at the site named [s]
    [Fuel]     the model ran out of its explicit recursion budget (never a Rust outcome) *)
From Coq Require Import String.

Inductive Res (A : Type) : Type :=
| Ok (a : A)
| Err (e : string)
| Panic (site : string)
| Fuel.
Arguments Ok {A}. Arguments Err {A}. Arguments Panic {A}. Arguments Fuel {A}.

Definition bind {A B} (r : Res A) (f : A -> Res B) : Res B :=
  match r with
  | Ok a => f a
  | Err e => Err e
  | Panic s => Panic s
  | Fuel => Fuel
  end.

Notation "x <- r ;; k" := (bind r (fun x => k))
  (at level 61, r at next level, right associativity).
Notation "' p <- r ;; k" := (bind r (fun x => let p := x in k))
  (at level 61, p pattern, r at next level, right associativity).

Definition is_panic {A} (r : Res A) : bool :=
  match r with Panic _ => true | _ => false end.
Definition is_fuel {A} (r : Res A) : bool :=
  match r with Fuel => true | _ => false end.
Definition is_ok {A} (r : Res A) : bool :=
  match r with Ok _ => true | _ => false end.
