(** Executable wrapper of the typed IF_DATA model (C19).
    case ( ( <tty>* ) <dump of ifdata_items or ( )> )     the fields of the block "IF_DATA" as the typed code sees them, and the
                                                           generic items the library parsed (format of enc_gifd in RunLoad.v)
      -> ( sOK ( <leaf>* ) <generic dump of store(load(items))> ) | ( sERR s<why> )
    tty  ::= ( sI s<variant> ) | sF | sD | sStr | ( sE s<item>* ) | ( sA tty i<n> ) | ( sS tty* ) | ( sQ tty )
           | ( sT|sU ( s<tag> i<is_block> i<repeat> tty* )* )
    leaf ::= ( sI i<value> ) | ( sF i<bits of the f32 widened to f64> ) | ( sD i<bits> ) | ( sS s<text> ) | ( sE s<item> ) | ( sT s<tag> )
             in the order of the fields (tagged members in specification order, a data-less member contributes its tag) *)
From Coq Require Import String List ZArith NArith Bool Ascii.
From A2L Require Import Base.Res Base.Sx Text.Escape Lex.Tokenizer Gram.Spec A2ml.Types Gram.PState Gram.Parser A2ml.Typed Run.RunLoad.
Import ListNotations.
Local Open Scope string_scope.

Definition b_of (s : string) : bytes := list_ascii_of_string s.

Fixpoint dec_tty (fuel : nat) (x : sx) : option tty :=
  match fuel with
  | O => None
  | S f =>
      match x with
      | SL [SS "I"; SS v] => Some (YInt v)
      | SS "F" => Some YFloat | SS "D" => Some YDouble | SS "Str" => Some YStr
      | SL (SS "E" :: items) => option_map YEnum (opt_map_all (fun i => option_map b_of (sx_to_string i)) items)
      | SL [SS "A"; t; SZ n] => option_map (fun t' => YArr t' (Z.to_nat n)) (dec_tty f t)
      | SL (SS "S" :: fs) => option_map YStruct (opt_map_all (dec_tty f) fs)
      | SL [SS "Q"; t] => option_map YSeq (dec_tty f t)
      | SL (SS "T" :: ms) => option_map (YTagged false) (opt_map_all (dec_mem f) ms)
      | SL (SS "U" :: ms) => option_map (YTagged true) (opt_map_all (dec_mem f) ms)
      | _ => None
      end
  end
with dec_mem (fuel : nat) (x : sx) : option ymember :=
  match fuel with
  | O => None
  | S f =>
      match x with
      | SL (SS tag :: SZ isb :: SZ rep :: fs) =>
          option_map (YMem (b_of tag) (negb (isb =? 0)%Z) (negb (rep =? 0)%Z)) (opt_map_all (dec_tty f) fs)
      | _ => None
      end
  end.

Fixpoint dec_gifd (fuel : nat) (x : sx) : option gifd :=
  match fuel with
  | O => None
  | S f =>
      match x with
      | SL [SS "None"] => Some GNone
      | SL [SS "Float"; SZ off; SZ bits] => Some (GFloat (Z.to_N off) (Z.to_N bits))
      | SL [SS "Double"; SZ off; SZ bits] => Some (GDouble (Z.to_N off) (Z.to_N bits))
      | SL [SS "String"; SZ off; SS s] => Some (GString (Z.to_N off) (b_of s))
      | SL [SS "EnumItem"; SZ off; SS s] => Some (GEnumItem (Z.to_N off) (b_of s))
      | SL (SS "Array" :: l) => option_map GArray (opt_map_all (dec_gifd f) l)
      | SL (SS "Sequence" :: l) => option_map GSequence (opt_map_all (dec_gifd f) l)
      | SL (SS "TaggedStruct" :: l) => option_map GTaggedStruct (opt_map_all (dec_entry f) l)
      | SL (SS "TaggedUnion" :: l) => option_map GTaggedUnion (opt_map_all (dec_entry f) l)
      | SL (SS "Struct" :: _ :: SZ line :: l) => option_map (GStruct None (Z.to_N line)) (opt_map_all (dec_gifd f) l)
      | SL (SS "Block" :: _ :: SZ line :: l) => option_map (GBlock None (Z.to_N line)) (opt_map_all (dec_gifd f) l)
      | SL [SS variant; SZ off; SZ v; SZ hex] => Some (GInt variant (Z.to_N off) v (negb (hex =? 0)%Z))
      | _ => None
      end
  end
with dec_entry (fuel : nat) (x : sx) : option (bytes * list gtitem) :=
  match fuel with
  | O => None
  | S f =>
      match x with
      | SL (SS tag :: items) =>
          option_map (fun l => (b_of tag, l))
            (opt_map_all (fun i => match i with
                                   | SL [_; SZ line; SZ uid; SZ so; SZ eo; SS t; d; SZ isb] =>
                                       option_map (fun d' => GTI None (Z.to_N line) (Z.to_N uid) (Z.to_N so) (Z.to_N eo) (b_of t) d' (negb (isb =? 0)%Z))
                                                  (dec_gifd f d)
                                   | _ => None
                                   end) items)
      | _ => None
      end
  end.

Section Leaves.
  Variable rec : tty -> tval -> list sx.
  Fixpoint leaves_fields (tys : list tty) (vals : list tval) : list sx :=
    match tys, vals with
    | t :: tr, v :: vr => rec t v ++ leaves_fields tr vr
    | _, _ => []
    end.
End Leaves.
Fixpoint leaves (fuel : nat) (t : tty) (v : tval) : list sx :=
  match fuel with
  | O => []
  | S f =>
      match t, v with
      | YInt _, WInt z _ => [SL [SS "I"; SZ z]]
      | YFloat, WFloat b => [SL [SS "F"; sn b]]
      | YDouble, WDouble b => [SL [SS "D"; sn b]]
      | YStr, WStr s => [SL [SS "S"; sb s]]
      | YEnum _, WEnum e => [SL [SS "E"; sb e]]
      | YArr t' _, WArr l => flat_map (leaves f t') l
      | YSeq t', WSeq l => flat_map (leaves f t') l
      | YStruct fs, WStruct l => leaves_fields (leaves f) fs l
      | YTagged _ ms, WTagged occ =>
          flat_map (fun p : ymember * list (list tval) =>
                      let (m, os) := p in
                      flat_map (fun vals => match ym_fields m with
                                            | [] => [SL [SS "T"; sb (ym_tag m)]]
                                            | fs => leaves_fields (leaves f) fs vals
                                            end) os) (combine ms occ)
      | _, _ => []
      end
  end.

Definition run_c19 (x : sx) : sx :=
  match x with
  | SL [SL fs; items] =>
      let d := S (sx_depth x) in
      match opt_map_all (dec_tty d) fs with
      | None => bad_case
      | Some fields =>
          let g := match items with
                   | SL [] => Some None
                   | SL [i] => option_map Some (dec_gifd d i)
                   | _ => None
                   end in
          match g with
          | None => bad_case
          | Some og =>
              match load_from_ifdata d fields og with
              | LOk vals => SL [SS "OK"; SL (leaves_fields (leaves d) fields vals);
                                enc_gifd [] (store_to_ifdata d fields vals)]
              | LErr why => SL [SS "ERR"; SS why]
              end
          end
      end
  | _ => bad_case
  end.
