(** Executable side of the round-trip theorem (Proofs/RoundTripProofs.v), kind RT.  For every block of a loaded document
    that meets the theorem's condition [confb] it evaluates
      - the lexical half (proved in Proofs/RoundTripTextProofs.v under the additional condition that every written token text
        is a well-formed token of its type, [token_textb], which is counted here): the tokenizer cuts the text the writer
        produces for the block into exactly the tokens [wtoks] (types and texts);
      - the statement of the theorem itself on these tokens (a sanity check of the definitions on real data): the parser
        rebuilds [reorder] of the block up to layout and stops behind it.
    case: as LOAD ( text strict _ _ floattable ... );  answer ( sOK blocks conforming lexical_mismatches parse_mismatches ( s<type>* ) blocks_with_wellformed_token_texts elements
    elements_meeting_the_value_condition_of_the_load_write_theorem ) *)
From Coq Require Import Ascii String List Bool NArith ZArith.
From A2L Require Import Base.Sx Text.Escape Text.IntText Lex.Tokenizer Gram.Spec A2ml.Types Gram.PState Gram.Parser Gram.Writer
  Gram.TokWriter Gen.SpecShipped Gen.WriterShipped Run.RunLoad Proofs.ParseTraceProofs.
Import ListNotations.
Local Open Scope N_scope.

Fixpoint sx_eqb (a b : sx) : bool :=
  match a, b with
  | SZ x, SZ y => Z.eqb x y
  | SS x, SS y => String.eqb x y
  | SL x, SL y =>
      (fix go (l1 l2 : list sx) {struct l1} : bool :=
         match l1, l2 with
         | [], [] => true
         | p :: r, q :: t => sx_eqb p q && go r t
         | _, _ => false
         end) x y
  | _, _ => false
  end.

Definition shape_eqb (a b : shape) : bool := ttype_eqb (fst a) (fst b) && bytes_eqb (snd a) (snd b).

Fixpoint subnodes (fuel : nat) (v : value) : list value :=
  match fuel with
  | O => []
  | S f =>
      match v with
      | VNode _ _ _ kids _ => v :: flat_map (fun l => flat_map (subnodes f) l) kids
      | _ => []
      end
  end.

Definition node_name (v : value) : string := match v with VNode ty _ _ _ _ => ty | _ => "" end.

(* the two evaluations for one block; None: the block does not meet the condition *)
Definition rt_block (tab : list fentry) (fuel : nat) (x : value) : option (bool * bool * bool) :=
  match lookup_ty spec_shipped (node_name x) with
  | Some td =>
      if is_blockb td && confb spec_shipped posr_shipped tab fuel td x None then
        let want := wtoks spec_shipped posr_shipped tab fuel x in
        let text := write_node spec_shipped posr_shipped tab [[]] fuel x 1 in
        match tokenize_core 0 text with
        | TOk toks =>
            let lex_ok := list_eqb shape_eqb (map shape_of toks) want in
            let tag := bytes_of "X" in
            let line := match rev toks with t :: _ => tk_line t | [] => 1 end in
            let closing_toks := [mkTok TEnd 0 0 end_text line O; mkTok TIdentifier 0 0 tag line O] in
            let c := mkCtx tag O 1 in
            let parse_ok :=
              match parse_ty (S fuel) spec_shipped 0 td c 0 (init_state (toks ++ closing_toks) false 1 tab) with
              | (ROk v', s') =>
                  match ps_after s' with
                  | [] => sx_eqb (enc_value [[]] (erase v')) (enc_value [[]] (erase (reorder spec_shipped posr_shipped fuel x)))
                  | _ => false
                  end
              | _ => false
              end in
            Some (lex_ok, parse_ok, forallb token_textb want)
        | _ => Some (false, false, forallb token_textb want)
        end
      else None
  | None => None
  end.

Definition run_rt (x : sx) : sx :=
  match x with
  | SL (SS text :: SZ strict :: _ :: _ :: SL ftab :: rest) =>
      match opt_map_all dec_fentry ftab with
      | None => bad_case
      | Some tab =>
          match tokenize_core 0 (list_ascii_of_string text) with
          | TOk toks =>
              if has_include toks || has_a2ml_block toks then SL [SS "UNSUPPORTED"] else
              match parse_file spec_shipped (init_state toks false 1 tab) with
              | (ROk v, _) =>
                  let fuel := S (S (length toks)) in
                  let nodes := subnodes fuel v in
                  let res := map (fun n => (n, rt_block tab fuel n)) nodes in
                  let blocks := filter (fun n => match lookup_ty spec_shipped (node_name n) with Some td => is_blockb td | None => false end) nodes in
                  let conf := filter (fun p => match snd p with Some _ => true | None => false end) res in
                  let lexbad := filter (fun p => match snd p with Some (false, _, _) => true | _ => false end) res in
                  let parsebad := filter (fun p => match snd p with Some (_, false, _) => true | _ => false end) res in
                  let textok := filter (fun p => match snd p with Some (_, _, true) => true | _ => false end) res in
                  (* elements that meet the value condition of the load -> write theorem (Props/C02.v) *)
                  let c02ok := filter (fun n => match lookup_ty spec_shipped (node_name n) with
                                                | Some td => match t_special td with None => goodb spec_shipped posr_shipped fuel td n | Some _ => false end
                                                | None => false end) nodes in
                  SL [SS "OK"; sx_nat (length blocks); sx_nat (length conf); sx_nat (length lexbad); sx_nat (length parsebad);
                      SL (map (fun p => SS (node_name (fst p))) (firstn 3 (lexbad ++ parsebad))); sx_nat (length textok);
                      sx_nat (length nodes); sx_nat (length c02ok)]
              | _ => SL [SS "NOLOAD"]
              end
          | _ => SL [SS "NOLOAD"]
          end
      end
  | _ => bad_case
  end.
