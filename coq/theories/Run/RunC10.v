(** Executable wrapper of the cleanup model (C10): one abstract module in, the module after cleanup out.
    case / answer ::= ( objs groups funcs cms tabs units rls conv conv_ro obj_funcs rl_uses grp_uses )
      objs ( ( i<kind> s<name> )* )   groups ( ( s<name> ol ol ol ol )* )   funcs ( ( s<name> ol ol ol ol ol ol on )* )
      cms ( ( s<name> on on on )* )   tabs ( ( i<kind> s<name> )* )   units ( ( s<name> on )* )   the rest: lists of names
      ol ::= ( ) | ( ( s<name>* ) )    on ::= ( ) | ( s<name> )                                                *)
From Coq Require Import String List ZArith NArith Bool Ascii.
From A2L Require Import Base.Res Base.Sx Text.Escape Lib.Merge Lib.Cleanup Run.RunC08.
Import ListNotations.
Local Open Scope string_scope.

Definition dname (x : sx) : option name := option_map list_ascii_of_string (sx_to_string x).
Definition dnames (x : sx) : option (list name) := sx_to_list dname x.
Definition enames (l : list name) : sx := sx_list sb l.
Definition dol (x : sx) : option olist :=
  match x with
  | SL [] => Some None
  | SL [l] => option_map Some (dnames l)
  | _ => None
  end.
Definition eol (o : olist) : sx := sx_opt enames o.
Definition don (x : sx) : option (option name) :=
  match x with
  | SL [] => Some None
  | SL [n] => option_map Some (dname n)
  | _ => None
  end.
Definition eon (o : option name) : sx := sx_opt sb o.
Definition dkn (x : sx) : option (N * name) :=
  match x with SL [SZ k; SS n] => Some (Z.to_N k, list_ascii_of_string n) | _ => None end.
Definition ekn (p : N * name) : sx := SL [sx_N (fst p); sb (snd p)].

Definition dgroup (x : sx) : option cgroup :=
  match x with
  | SL [n; a; b; c; d] =>
      match dname n, dol a, dol b, dol c, dol d with
      | Some n', Some a', Some b', Some c', Some d' => Some (mkG n' a' b' c' d')
      | _, _, _, _, _ => None
      end
  | _ => None
  end.
Definition egroup (g : cgroup) : sx := SL [sb (g_nm g); eol (g_sub g); eol (g_rc g); eol (g_rm g); eol (g_fl g)].
Definition dfunc (x : sx) : option cfunc :=
  match x with
  | SL [n; a; b; c; d; e; f; p] =>
      match dname n, dol a, dol b, dol c with
      | Some n', Some a', Some b', Some c' =>
          match dol d, dol e, dol f, don p with
          | Some d', Some e', Some f', Some p' => Some (mkF n' a' b' c' d' e' f' p')
          | _, _, _, _ => None
          end
      | _, _, _, _ => None
      end
  | _ => None
  end.
Definition efunc (f : cfunc) : sx :=
  SL [sb (f_nm f); eol (f_sub f); eol (f_rc f); eol (f_dc f); eol (f_in f); eol (f_loc f); eol (f_out f); eon (f_proto f)].
Definition dcm (x : sx) : option ccm :=
  match x with
  | SL [n; a; b; c] =>
      match dname n, don a, don b, don c with
      | Some n', Some a', Some b', Some c' => Some (mkCM n' a' b' c')
      | _, _, _, _ => None
      end
  | _ => None
  end.
Definition ecm (c : ccm) : sx := SL [sb (cm_nm c); eon (cm_tab c); eon (cm_unit c); eon (cm_ssr c)].
Definition dunit (x : sx) : option cunit :=
  match x with
  | SL [n; a] => match dname n, don a with Some n', Some a' => Some (mkU n' a') | _, _ => None end
  | _ => None
  end.
Definition eunit (u : cunit) : sx := SL [sb (u_nm u); eon (u_ref u)].

Definition dmod (x : sx) : option cmod :=
  match x with
  | SL [o; g; f; c; t; u; r; cv; cr; ofs; ru; gu] =>
      match sx_to_list dkn o, sx_to_list dgroup g, sx_to_list dfunc f, sx_to_list dcm c with
      | Some o', Some g', Some f', Some c' =>
          match sx_to_list dkn t, sx_to_list dunit u, dnames r, dnames cv with
          | Some t', Some u', Some r', Some cv' =>
              match dnames cr, sx_to_list dnames ofs, dnames ru, dnames gu with
              | Some cr', Some ofs', Some ru', Some gu' => Some (mkM o' g' f' c' t' u' r' cv' cr' ofs' ru' gu')
              | _, _, _, _ => None
              end
          | _, _, _, _ => None
          end
      | _, _, _, _ => None
      end
  | _ => None
  end.
Definition emod (m : cmod) : sx :=
  SL [ sx_list ekn (m_objs m); sx_list egroup (m_groups m); sx_list efunc (m_funcs m); sx_list ecm (m_cms m);
       sx_list ekn (m_tabs m); sx_list eunit (m_units m); enames (m_rls m); enames (m_conv m); enames (m_conv_ro m);
       sx_list enames (m_obj_funcs m); enames (m_rl_uses m); enames (m_grp_uses m) ].

Definition run_c10 (x : sx) : sx :=
  match dmod x with
  | Some m => SL [SS "OK"; emod (cleanup m); emod (cleanup (cleanup m))]
  | None => bad_case
  end.
