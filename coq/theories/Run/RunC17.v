From Coq Require Import String List NArith ZArith Ascii.
From A2L Require Import Base.Sx Lib.Encoding.
Import ListNotations.

Definition bytes_of_string (s : string) : list N := map N_of_ascii (list_ascii_of_string s).
Definition string_of_bytes (l : list N) : string := string_of_list_ascii (map ascii_of_N l).

(* case ( s<file bytes> ... ) -> ( s<decode_raw_bytes> s<after BOM removal> ) *)
Definition run_c17 (x : sx) : sx :=
  match x with
  | SL (SS fd :: _) =>
      let b := bytes_of_string fd in
      SL [SS (string_of_bytes (decode_raw_bytes b)); SS (string_of_bytes (load_text b))]
  | _ => bad_case
  end.
