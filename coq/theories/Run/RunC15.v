(** Executable wrapper of the Sort model (C14, C15): a module state given element by element,
    a history over {sni, sort, push}, observation of every list and of the writer order after each step. *)
From Coq Require Import String List ZArith Bool.
From A2L Require Import Base.Res Base.Sx Base.StableSort Lib.Sort.
Import ListNotations.
Local Open Scope string_scope.

Definition dec_el (x : sx) : option el :=
  match x with
  | SL [SS tag; SS name; SZ pay; SZ uid; SZ line; SZ so; SZ eo] =>
      Some (mkEl tag name (Z.to_N pay) uid line so eo)
  | _ => None
  end.
Definition enc_el (e : el) : sx :=
  SL [SS (e_tag e); SS (e_name e); SZ (Z.of_N (e_pay e)); SZ (e_uid e); SZ (e_line e); SZ (e_so e); SZ (e_eo e)].

Definition dec_opt_el (x : sx) : option (option el) :=
  match x with
  | SL [] => Some None
  | SL [e] => option_map Some (dec_el e)
  | _ => None
  end.

Definition dec_module (x : sx) : option module :=
  match x with
  | SL [a; mc; mp; vc; ifd; ur; cm; ls] =>
      match dec_opt_el a, dec_opt_el mc, dec_opt_el mp, dec_opt_el vc,
            sx_to_list dec_el ifd, sx_to_list dec_el ur, sx_to_list sx_to_Z cm,
            sx_to_list (sx_to_list dec_el) ls with
      | Some a', Some mc', Some mp', Some vc', Some ifd', Some ur', Some cm', Some ls' =>
          Some (mkMod a' mc' mp' vc' ifd' ur' cm' ls')
      | _, _, _, _, _, _, _, _ => None
      end
  | _ => None
  end.

Definition enc_module (m : module) : sx :=
  SL [ sx_opt enc_el (m_a2ml m); sx_opt enc_el (m_mod_common m); sx_opt enc_el (m_mod_par m);
       sx_opt enc_el (m_variant_coding m); sx_list enc_el (m_if_data m); sx_list enc_el (m_user_rights m);
       sx_list SZ (m_comments m); sx_list (sx_list enc_el) (m_lists m) ].

Definition observe (m : module) : sx :=
  SL [ enc_module m; sx_list (fun e => SL [SS (e_tag e); SS (e_name e)]) (writer_order m) ].

Inductive mop := MSni | MSort | MRt | MPush (k : nat) (e : el).

Definition dec_mop (x : sx) : option mop :=
  match x with
  | SL [SS t] => if t =? "sni" then Some MSni else if t =? "sort" then Some MSort else if t =? "rt" then Some MRt else None
  | SL [SS t; k; e] => if t =? "push" then
                         match sx_to_nat k, dec_el e with Some k', Some e' => Some (MPush k' e') | _, _ => None end
                       else None
  | _ => None
  end.

Definition push_list (m : module) (k : nat) (e : el) : module :=
  let ls := m_lists m in
  match nth_error ls k with
  | None => m
  | Some l => mkMod (m_a2ml m) (m_mod_common m) (m_mod_par m) (m_variant_coding m) (m_if_data m)
                (m_user_rights m) (m_comments m) (firstn k ls ++ (l ++ [e])%list :: skipn (S k) ls)%list
  end.

Fixpoint run_mops (debug : bool) (m : module) (ops : list mop) : list sx :=
  match ops with
  | [] => []
  | o :: r =>
      match o with
      | MSni => match sort_new_items_module debug m with
                | Ok m' => observe m' :: run_mops debug m' r
                | Panic _ => [SL [SS "PANIC"]]
                | _ => [SL [SS "?"]]
                end
      | MSort => let m' := sort_module canonical_order m in observe m' :: run_mops debug m' r
      | MPush k e => let m' := push_list m k e in observe m' :: run_mops debug m' r
      | MRt => observe m :: run_mops debug m r          (* write + reload: no change of the module *)
      end
  end.

Definition run_c15 (x : sx) : sx :=
  match x with
  | SL [dbg; m; ops] =>
      match sx_to_bool dbg, dec_module m, sx_to_list dec_mop ops with
      | Some d, Some m', Some os => SL (observe m' :: run_mops d m' os)
      | _, _, _ => bad_case
      end
  | _ => bad_case
  end.
Definition run_c14 := run_c15.
