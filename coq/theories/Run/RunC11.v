(** Executable wrapper of the reference-check model (C11).
    case ( ( ( s<ns> s<name> )* ) ( ( i<site> s<target> olocal )* ) )   olocal ::= ( ) | ( i<0|1> )
      -> ( sOK ( s<reported target name>* ) )                            in slot order *)
From Coq Require Import String List ZArith NArith Bool.
From A2L Require Import Base.Res Base.Sx Gen.Sites Lib.RefCheck.
Import ListNotations.
Local Open Scope string_scope.

Definition dec_def (x : sx) : option (string * string) :=
  match x with SL [SS ns; SS n] => Some (ns, n) | _ => None end.
Definition dec_rslot (x : sx) : option rslot :=
  match x with
  | SL [SZ s; SS t; SL []] => Some (mkRS (Z.to_N s) t None)
  | SL [SZ s; SS t; SL [SZ b]] => Some (mkRS (Z.to_N s) t (Some (negb (b =? 0)%Z)))
  | _ => None
  end.

Definition run_c11 (x : sx) : sx :=
  match x with
  | SL [d; s] =>
      match sx_to_list dec_def d, sx_to_list dec_rslot s with
      | Some defs, Some slots => SL [SS "OK"; sx_list SS (check_reports sites defs slots)]
      | _, _ => bad_case
      end
  | _ => bad_case
  end.
