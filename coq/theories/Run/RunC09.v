(** Executable wrapper of the merge-with-references model (C09).
    case ( ( item* ) ( item* ) ( ( i<site> s<target> )* ) )
      -> ( sOK ( item* ) ( ( i<site> s<target> )* ) )   the merged namespace and B's references afterwards
    The set of sites that the rename functions visit is the table Gen/Sites.v (st_merge = Some true). *)
From Coq Require Import String List ZArith NArith Bool Ascii.
From A2L Require Import Base.Res Base.Sx Text.Escape Lib.Merge Lib.MergeRefs Gen.Sites Run.RunC08.
Import ListNotations.
Local Open Scope string_scope.

Definition table_covered (i : N) : bool :=
  match nth_error sites (N.to_nat i) with
  | Some s => match st_merge s with Some true => true | _ => false end
  | None => false
  end.

Definition dec_slot (x : sx) : option slot :=
  match x with
  | SL [SZ s; SS t] => Some (mkSlot (Z.to_N s) (list_ascii_of_string t))
  | _ => None
  end.
Definition enc_slot (s : slot) : sx := SL [sx_N (sl_site s); sb (sl_target s)].

Definition run_c09 (x : sx) : sx :=
  match x with
  | SL [a; b; sl] =>
      match sx_to_list dec_item a, sx_to_list dec_item b, sx_to_list dec_slot sl with
      | Some ia, Some ib, Some ss =>
          match merge_with_refs table_covered ia ib ss with
          | Some (r, ss') => SL [SS "OK"; sx_list enc_item r; sx_list enc_slot ss']
          | None => SL [SS "FUEL"]
          end
      | _, _, _ => bad_case
      end
  | _ => bad_case
  end.
