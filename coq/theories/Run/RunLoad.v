(** Executable wrapper of the loading pipeline model: text -> tokens -> generic model tree,
    printed in the format of harness/implrun/src/load.rs + dump_gen.rs. *)
From Coq Require Import Ascii String List Bool NArith ZArith.
From A2L Require Import Base.Sx Base.StableSort Text.Escape Text.IntText Lex.Tokenizer Lex.Include Gram.Spec A2ml.Types Gram.PState Gram.Parser
     Gram.Writer Lib.IfdataCleanup Gen.SpecShipped Gen.WriterShipped.
Import ListNotations.
Local Open Scope string_scope.

Definition sb (b : bytes) : sx := SS (string_of_list_ascii b).
Definition sn (n : N) : sx := SZ (Z.of_N n).
Definition sbool (b : bool) : sx := SZ (if b then 1 else 0)%Z.

(* file names by id; load_from_string uses the empty name for file 0 *)
Definition incname (names : list bytes) (o : option nat) : sx :=
  match o with None => SL [] | Some i => SL [sb (nth i names [])] end.

Definition enc_scalar (s : scalar) (off : N) : sx :=
  match s with
  | SInt v hex => SL [SZ v; sbool hex; sn off]
  | SFloat bits => SL [sn bits; sn off]
  | SText t => SL [sb t; sn off]
  end.

Definition enc_layout (names : list bytes) (l : layout) : sx :=
  SL [sn (l_uid l); sn (l_line l); sn (l_so l); sn (l_eo l); incname names (l_incfile l)].

Definition enc_comment (c : comment) : sx :=
  SL [sb (cm_text c); sn (cm_uid c); sn (cm_line c); sn (cm_so c); sbool (cm_included c)].

Fixpoint bytes_leb (a b : bytes) : bool :=
  match a, b with
  | [], _ => true
  | _ :: _, [] => false
  | x :: a', y :: b' =>
      let nx := N_of_ascii x in let ny := N_of_ascii y in
      if (nx <? ny)%N then true else if (ny <? nx)%N then false else bytes_leb a' b'
  end.

Section Gifd.
  Variable names : list bytes.
  Fixpoint enc_gifd (g : gifd) : sx :=
    match g with
    | GNone => SL [SS "None"]
    | GInt variant off v hex => SL [SS variant; sn off; SZ v; sbool hex]
    | GFloat off bits => SL [SS "Float"; sn off; sn bits]
    | GDouble off bits => SL [SS "Double"; sn off; sn bits]
    | GString off s => SL [SS "String"; sn off; sb s]
    | GEnumItem off s => SL [SS "EnumItem"; sn off; sb s]
    | GArray l => SL (SS "Array" :: map enc_gifd l)
    | GSequence l => SL (SS "Sequence" :: map enc_gifd l)
    | GTaggedStruct items =>
        SL (SS "TaggedStruct" ::
            map snd (ssort (fun a b => bytes_leb (fst a) (fst b))
                           (map (fun kv => (fst kv, SL (sb (fst kv) :: map enc_gtitem (snd kv)))) items)))
    | GTaggedUnion items =>
        SL (SS "TaggedUnion" ::
            map snd (ssort (fun a b => bytes_leb (fst a) (fst b))
                           (map (fun kv => (fst kv, SL (sb (fst kv) :: map enc_gtitem (snd kv)))) items)))
    | GStruct inc line items => SL (SS "Struct" :: incname names inc :: sn line :: map enc_gifd items)
    | GBlock inc line items => SL (SS "Block" :: incname names inc :: sn line :: map enc_gifd items)
    end
  with enc_gtitem (t : gtitem) : sx :=
    match t with
    | GTI inc line uid so eo tag data is_block =>
        SL [incname names inc; sn line; sn uid; sn so; sn eo; sb tag; enc_gifd data; sbool is_block]
    end.
End Gifd.

Fixpoint enc_value (names : list bytes) (v : value) : sx :=
  match v with
  | VScalar s off => enc_scalar s off
  | VList l => SL (map (enc_value names) l)
  | VNode ty lay fields kids cms =>
      SL [SS ty; enc_layout names lay; SL (map (enc_value names) fields);
          SL (map (fun k => SL (map (enc_value names) k)) kids); SL (map enc_comment cms)]
  | VIfData lay items valid =>
      SL [SS "IfData"; enc_layout names lay;
          SL [match items with None => SL [] | Some g => SL [enc_gifd names g] end; sbool valid];
          SL []; SL []]
  end.

Definition enc_diag (names : list bytes) (d : diag) : sx :=
  SL [SS "Parser"; SS (d_variant d);
      match d_line d with Some l => sn l | None => SZ (-1) end;
      match d_line d with Some _ => sb (nth (d_fileid d) names []) | None => SS "" end;
      sb (d_key d)].

Definition tokerr_sx (e : tokerr) : sx :=
  let mk v l := SL [SS "Tokenizer"; SS v; sn l] in
  match e with
  | EIncludeFile l => mk "IncludeFileError" l
  | EIncompleteInclude l => mk "IncompleteIncludeError" l
  | EInvalidA2lToken l => mk "InvalidA2lToken" l
  | EInvalidNumericalConstant l => mk "InvalidNumericalConstant" l
  | EUnclosedComment l => mk "UnclosedComment" l
  | EUnclosedString l => mk "UnclosedString" l
  | EMissingWhitespace l => mk "MissingWhitespace" l
  end.

Definition dec_fentry (x : sx) : option fentry :=
  match x with
  | SL [SS t; SZ ok; SZ bits; SS plain; SS exp; SZ ok32; SZ bits32; SS plain32; SS exp32] =>
      let b := list_ascii_of_string in
      Some (mkFe (b t) (negb (ok =? 0)%Z) (Z.to_N bits) (b plain) (b exp) (negb (ok32 =? 0)%Z) (Z.to_N bits32) (b plain32) (b exp32))
  | _ => None
  end.

Definition ttype_code (t : ttype) : Z :=
  match t with TIdentifier => 0 | TBegin => 1 | TEnd => 2 | TInclude => 3 | TString => 4 | TNumber => 5 | TComment => 6 end%Z.

(* TOKENS case *)
Definition run_tokens (x : sx) : sx :=
  match x with
  | SL [SS text] =>
      match tokenize_core 0 (list_ascii_of_string text) with
      | TOk toks => SL [SS "OK"; SL (map (fun t => SL [SZ (ttype_code (tk_type t)); sn (tk_start t); sn (tk_end t);
                                                        sx_nat (tk_fileid t); sn (tk_line t)]) toks)]
      | TErr e => SL [SS "ERR"; tokerr_sx e]
      | TPanic s => SL [SS "PANIC"; SS s]
      | TFuel => SL [SS "FUEL"]
      end
  | _ => bad_case
  end.

Definition has_include (toks : list token) : bool := existsb (fun t => ttype_eqb (tk_type t) TInclude) toks.
(* an A2ML block makes the interpretation of IF_DATA depend on the A2ML definition (model: A2ml/, C18) *)
Fixpoint has_a2ml_block (toks : list token) : bool :=
  match toks with
  | a :: ((b :: _) as r) =>
      (ttype_eqb (tk_type a) TBegin && ttype_eqb (tk_type b) TIdentifier && bytes_eqb (tk_text b) b_a2ml) || has_a2ml_block r
  | _ => false
  end.

(* the type specification the library derived from an A2ML text (harness: verif_hooks::parse_a2ml) *)
Fixpoint dec_ty (fuel : nat) (x : sx) : option a2mlty :=
  match fuel with
  | O => None
  | S f =>
      let b := list_ascii_of_string in
      match x with
      | SS "None" => Some TNone | SS "Char" => Some TChar | SS "Int" => Some TInt | SS "Long" => Some TLong
      | SS "Int64" => Some TInt64 | SS "UChar" => Some TUChar | SS "UInt" => Some TUInt | SS "ULong" => Some TULong
      | SS "UInt64" => Some TUInt64 | SS "Float" => Some TFloat | SS "Double" => Some TDouble
      | SL [SS "A"; t; SZ d] => option_map (fun t' => TArray t' (Z.to_nat d)) (dec_ty f t)
      | SL (SS "E" :: items) =>
          option_map TEnum (opt_map_all (fun i => match i with
                                                  | SL [SS n] => Some (b n, None)
                                                  | SL [SS n; SZ v] => Some (b n, Some v)
                                                  | _ => None end) items)
      | SL (SS "S" :: items) => option_map TStruct (opt_map_all (dec_ty f) items)
      | SL [SS "Q"; t] => option_map TSequence (dec_ty f t)
      | SL (SS "T" :: items) => option_map TTaggedStruct (opt_map_all (dec_tagged f) items)
      | SL (SS "U" :: items) => option_map TTaggedUnion (opt_map_all (dec_tagged f) items)
      | _ => None
      end
  end
with dec_tagged (fuel : nat) (x : sx) : option tagged :=
  match fuel with
  | O => None
  | S f =>
      match x with
      | SL [SS tag; SZ isb; SZ rep; t] =>
          option_map (fun t' => Tagged (list_ascii_of_string tag) (negb (isb =? 0)%Z) (negb (rep =? 0)%Z) t') (dec_ty f t)
      | _ => None
      end
  end.
Fixpoint sx_depth (x : sx) : nat :=
  match x with SL l => S (fold_right (fun y m => Nat.max (sx_depth y) m) O l) | _ => 1%nat end.
Definition dec_parsed (x : sx) : option (option a2mlty * bytes) :=
  match x with
  | SL [SS "OK"; t] => option_map (fun t' => (Some t', [])) (dec_ty (S (sx_depth t)) t)
  | SL [SS "ERR"; SS msg] => Some (None, list_ascii_of_string msg)
  | _ => None
  end.
Definition dec_a2ml_entry (x : sx) : option (bytes * (option a2mlty * bytes)) :=
  match x with
  | SL [SS txt; p] => option_map (fun v => (list_ascii_of_string txt, v)) (dec_parsed p)
  | _ => None
  end.

(* LOAD case: ( text strict optspec cycles floattable [a2mltable builtin] )
   a2mltable: what a2ml::parse_a2ml yields for the text of every A2ML block of the file; builtin: ( ) | ( parsed ) for the
   a2ml_spec argument *)
Definition run_load_with (text : string) (strict : Z) (ftab : list sx) (a2mltab : option (list sx)) (builtin : list sx) : sx :=
      match opt_map_all dec_fentry ftab with
      | None => bad_case
      | Some tab =>
          match tokenize_core 0 (list_ascii_of_string text) with
          | TErr e => SL [SS "ERR"; tokerr_sx e]
          | TPanic s => SL [SS "PANIC"; SS s]
          | TFuel => SL [SS "FUEL"]
          | TOk toks =>
              if has_include toks then SL [SS "UNSUPPORTED"; SS "include"] else
              match a2mltab with
              | None => if has_a2ml_block toks then SL [SS "UNSUPPORTED"; SS "a2ml"] else bad_case
              | Some at_ =>
              match toks, opt_map_all dec_a2ml_entry at_, opt_map_all dec_parsed builtin with
              | [], _, _ => SL [SS "ERR"; SL [SS "Other"; SS "EmptyFileError"]]
              | _, Some oracle, Some bi =>
                  let names := [[]] in
                  match bi with
                  | [(None, msg)] => SL [SS "ERR"; SL [SS "Other"; SS "InvalidBuiltinA2mlSpec"]]
                  | _ =>
                  let specs := flat_map (fun p => match fst p with Some t => [t] | None => [] end) bi in
                  match parse_file spec_shipped (init_state_a2ml toks (negb (strict =? 0)%Z) 1 tab specs oracle) with
                  | (ROk v, s) =>
                      let text1 := write_node spec_shipped posr_shipped tab names (S (S (length toks))) v 0 in
                      SL [SS "OK"; enc_value names v; SL (map (enc_diag names) (frev (ps_log s))); sb text1]
                  | (RErr d, _) => SL [SS "ERR"; enc_diag names d]
                  | (RPanic site, _) => SL [SS "PANIC"; SS site]
                  | (RFuel, _) => SL [SS "FUEL"]
                  end
                  end
              | _, _, _ => bad_case
              end
              end
          end
      end.

Definition run_load (x : sx) : sx :=
  match x with
  | SL [SS text; SZ strict; _; _; SL ftab] =>
      match tokenize_core 0 (list_ascii_of_string text) with
      | TOk toks => if has_a2ml_block toks then run_load_with text strict ftab None [] else run_load_with text strict ftab (Some []) []
      | _ => run_load_with text strict ftab (Some []) []
      end
  | SL [SS text; SZ strict; _; _; SL ftab; SL a2mltab; SL builtin] => run_load_with text strict ftab (Some a2mltab) builtin
  | _ => bad_case
  end.

(* ---------- LOADINC: a document that lives in several files (C16) ----------
   case ( ( ( s<path> s<text> )* ) s<main path> i<strict> floattable ( ( s<base path> s<directive text> ( s<path> )? )* ) )
   The last table is the file-system oracle of Lex/Include.v: which file a directive written in a given file names
   (loader::make_include_filename + load: relative to the including file, both separators), or nothing. *)
Fixpoint assoc_text (files : list (bytes * bytes)) (p : bytes) : option bytes :=
  match files with
  | [] => None
  | (k, v) :: r => if bytes_eqb k p then Some v else assoc_text r p
  end.
Fixpoint resolve_in (tab : list (bytes * bytes * option bytes)) (base inc : bytes) : option (option bytes) :=
  match tab with
  | [] => None
  | (b, i, r) :: rest => if bytes_eqb b base && bytes_eqb i inc then Some r else resolve_in rest base inc
  end.
Definition fs_of (files : list (bytes * bytes)) (tab : list (bytes * bytes * option bytes)) (base inc : bytes)
  : option (bytes * bytes) :=
  match resolve_in tab base inc with
  | Some (Some p) => match assoc_text files p with Some t => Some (p, t) | None => None end
  | _ => None
  end.

Definition dec_file (x : sx) : option (bytes * bytes) :=
  match x with SL [SS p; SS t] => Some (list_ascii_of_string p, list_ascii_of_string t) | _ => None end.
Definition dec_resolve (x : sx) : option (bytes * bytes * option bytes) :=
  let b := list_ascii_of_string in
  match x with
  | SL [SS base; SS inc; SL []] => Some (b base, b inc, None)
  | SL [SS base; SS inc; SL [SS p]] => Some (b base, b inc, Some (b p))
  | _ => None
  end.

Definition ierr_sx (e : tokerr) (display incname : bytes) : sx :=
  match tokerr_sx e with
  | SL [k; v; l] => SL [k; v; l; sb display; sb incname]
  | other => other
  end.

Definition run_loadinc (x : sx) : sx :=
  match x with
  | SL [SL files; SS mainp; SZ strict; SL ftab; SL resolve] =>
      match opt_map_all dec_file files, opt_map_all dec_fentry ftab, opt_map_all dec_resolve resolve with
      | Some fl, Some tab, Some rs =>
          let mp := list_ascii_of_string mainp in
          match assoc_text fl mp with
          | None => bad_case
          | Some text =>
              match tokenize_inc (fs_of fl rs) (S (S (length fl))) (mkFn mp mp None) 0 text with
              | IErr e d i => SL [SS "ERR"; ierr_sx e d i]
              | IPanic s => SL [SS "PANIC"; SS s]
              | IFuel => SL [SS "FUEL"]
              | IOk toks fns =>
                  if has_a2ml_block toks then SL [SS "UNSUPPORTED"; SS "a2ml"] else
                  match toks with
                  | [] => SL [SS "ERR"; SL [SS "Other"; SS "EmptyFileError"]]
                  | _ =>
                      let display := map fn_display fns in
                      let tops := map (fun f => match fn_top f with Some d => d | None => fn_display f end) fns in
                      match parse_file spec_shipped (init_state toks (negb (strict =? 0)%Z) (length fns) tab) with
                      | (ROk v, s) =>
                          let text1 := write_node spec_shipped posr_shipped tab tops (S (S (length toks))) v 0 in
                          SL [SS "OK"; enc_value tops v; SL (map (enc_diag display) (frev (ps_log s))); sb text1]
                      | (RErr d, _) => SL [SS "ERR"; enc_diag display d]
                      | (RPanic site, _) => SL [SS "PANIC"; SS site]
                      | (RFuel, _) => SL [SS "FUEL"]
                      end
                  end
              end
          end
      | _, _, _ => bad_case
      end
  | _ => bad_case
  end.

(* ---------- LOADCLEAN: the text written after ifdata_cleanup() (C18) ----------
   case as LOAD with the A2ML tables; answer ( sOK text ) | as LOAD otherwise *)
Definition run_loadclean (x : sx) : sx :=
  match x with
  | SL [SS text; SZ strict; _; _; SL ftab; SL a2mltab; SL builtin] =>
      match opt_map_all dec_fentry ftab, opt_map_all dec_a2ml_entry a2mltab, opt_map_all dec_parsed builtin with
      | Some tab, Some oracle, Some bi =>
          match tokenize_core 0 (list_ascii_of_string text) with
          | TErr e => SL [SS "ERR"; tokerr_sx e]
          | TPanic s => SL [SS "PANIC"; SS s]
          | TFuel => SL [SS "FUEL"]
          | TOk toks =>
              if has_include toks then SL [SS "UNSUPPORTED"; SS "include"] else
              match toks, bi with
              | [], _ => SL [SS "ERR"; SL [SS "Other"; SS "EmptyFileError"]]
              | _, [(None, _)] => SL [SS "ERR"; SL [SS "Other"; SS "InvalidBuiltinA2mlSpec"]]
              | _, _ =>
                  let names := [[]] in
                  let specs := flat_map (fun p => match fst p with Some t => [t] | None => [] end) bi in
                  match parse_file spec_shipped (init_state_a2ml toks (negb (strict =? 0)%Z) 1 tab specs oracle) with
                  | (ROk v, s) =>
                      let fuel := S (S (length toks)) in
                      SL [SS "OK"; sb (write_node spec_shipped posr_shipped tab names fuel (cleanup_value fuel v) 0)]
                  | (RErr d, _) => SL [SS "ERR"; enc_diag names d]
                  | (RPanic site, _) => SL [SS "PANIC"; SS site]
                  | (RFuel, _) => SL [SS "FUEL"]
                  end
              end
          end
      | _, _, _ => bad_case
      end
  | _ => bad_case
  end.
