(** Executable wrapper of the merge model (C08); the case format is documented in
    harness/implrun/src/c08.rs. *)
From Coq Require Import String List ZArith NArith Bool Ascii.
From A2L Require Import Base.Res Base.Sx Text.Escape Lib.Merge.
Import ListNotations.
Local Open Scope string_scope.

Definition sb (b : bytes) : sx := SS (string_of_list_ascii b).

Definition dec_item (x : sx) : option item :=
  match x with
  | SL [SZ k; SS n; SZ b] => Some (mkItem (Z.to_N k) (list_ascii_of_string n) (Z.to_N b))
  | _ => None
  end.
Definition enc_item (i : item) : sx := SL [sx_N (it_kind i); sb (it_name i); sx_N (it_body i)].

Definition ns_kinds (ns : Z) : list N :=
  match ns with
  | 0%Z | 1%Z => [0; 1; 2; 3; 4]%N
  | 2%Z => [0; 1; 2]%N
  | _ => [0%N]
  end.
Definition per_kind (ns : Z) (l : list item) : sx :=
  SL (map (fun k => sx_list enc_item (filter (fun i => N.eqb (it_kind i) k) l)) (ns_kinds ns)).

Definition run_one_ns (x : sx) : option sx :=
  match x with
  | SL [SZ ns; a; b] =>
      match sx_to_list dec_item a, sx_to_list dec_item b with
      | Some ia, Some ib =>
          match merge_ns ia ib with
          | Some r => Some (per_kind ns r)
          | None => None
          end
      | _, _ => None
      end
  | _ => None
  end.

Fixpoint merge_seq (a : list item) (bs : list (list item)) : option (list item) :=
  match bs with
  | [] => Some a
  | b :: r => match merge_ns a b with Some a' => merge_seq a' r | None => None end
  end.

Definition dec_olist (x : sx) : option (option (list name)) :=
  match x with
  | SL [] => Some None
  | SL [SL l] => option_map Some (opt_map_all (fun s => option_map list_ascii_of_string (sx_to_string s)) l)
  | _ => None
  end.
Definition enc_olist (o : option (list name)) : sx := sx_opt (sx_list sb) o.
Definition dec_grp (x : sx) : option grp :=
  match x with
  | SL [SS n; SZ r; ls] =>
      match sx_to_list dec_olist ls with
      | Some l => Some (mkGrp (list_ascii_of_string n) (Z.to_N r) l)
      | None => None
      end
  | _ => None
  end.
Definition enc_grp (g : grp) : sx := SL [sb (g_name g); sx_N (g_rest g); sx_list enc_olist (g_lists g)].

Definition run_c08 (x : sx) : sx :=
  match x with
  | SL [SS "NS"; SL parts] =>
      match opt_map_all run_one_ns parts with
      | Some rs => SL [SS "OK"; SL rs]
      | None => bad_case
      end
  | SL [SS "SEQ"; SZ ns; a; SL bs] =>
      match sx_to_list dec_item a, opt_map_all (sx_to_list dec_item) bs with
      | Some ia, Some ibs =>
          match merge_seq ia ibs with
          | Some r => SL [SS "OK"; per_kind ns r]
          | None => SL [SS "FUEL"]
          end
      | _, _ => bad_case
      end
  | SL [SS "GRP"; SZ _; a; b] =>
      match sx_to_list dec_grp a, sx_to_list dec_grp b with
      | Some ga, Some gb => SL [SS "OK"; sx_list enc_grp (merge_grps ga gb)]
      | _, _ => bad_case
      end
  | _ => bad_case
  end.
