(** Executable wrapper of the ItemList model for the correspondence check:
    decodes a case (alphabet, operation history), runs the model step by step and
    prints after every step the operation's result and everything the public
    read-only API lets one observe. *)
From Coq Require Import String List ZArith Bool.
From A2L Require Import Base.Res Base.Sx Lib.ItemList.
Import ListNotations.
Local Open Scope string_scope.

Definition dec_item (x : sx) : option item :=
  match x with
  | SL [SS n; SZ p] => Some (n, Z.to_N p)
  | _ => None
  end.
Definition enc_item (it : item) : sx := SL [SS (fst it); SZ (Z.of_N (snd it))].

Definition dec_pred (x : sx) : option pred :=
  match x with
  | SL [SS t] => if t =? "even" then Some PPayEven else if t =? "all" then Some PAll
                 else if t =? "none" then Some PNone else None
  | SL [SS t; SS s] => if t =? "namelt" then Some (PNameLt s) else if t =? "namene" then Some (PNameNe s) else None
  | _ => None
  end.
Definition dec_cmp (x : sx) : option cmpk :=
  match x with
  | SS t => if t =? "nameasc" then Some CNameAsc else if t =? "namedesc" then Some CNameDesc
            else if t =? "payasc" then Some CPayAsc else if t =? "consteq" then Some CConstEq else None
  | _ => None
  end.

Definition dec_op (x : sx) : option op :=
  match x with
  | SL [SS t] =>
      if t =? "pop" then Some OPop else if t =? "clear" then Some OClear else None
  | SL [SS t; a] =>
      if t =? "push" then option_map OPush (dec_item a)
      else if t =? "swap_remove" then option_map OSwapRemove (sx_to_string a)
      else if t =? "swap_remove_idx" then option_map OSwapRemoveIdx (sx_to_nat a)
      else if t =? "retain" then option_map ORetain (dec_pred a)
      else if t =? "truncate" then option_map OTruncate (sx_to_nat a)
      else if t =? "sort_by" then option_map OSortBy (dec_cmp a)
      else if t =? "extend" then option_map OExtend (sx_to_list dec_item a)
      else if t =? "collect" then option_map OCollect (sx_to_list dec_item a)
      else None
  | SL [SS t; a; b] =>
      if t =? "rename" then
        match sx_to_nat a, sx_to_string b with
        | Some i, Some s => Some (ORename i s)
        | _, _ => None
        end
      else None
  | _ => None
  end.

Definition enc_out (o : out) : sx :=
  match o with
  | ONone => SL []
  | OItem r => SL [sx_opt enc_item r]
  end.

Definition enc_get (r : Res (option item)) : sx :=
  match r with
  | Ok o => sx_opt enc_item o
  | Panic s => SL [SS "PANIC"; SS s]
  | _ => SL [SS "?"]
  end.

Definition observe (alpha : list string) (l : ilist) : sx :=
  SL [ sx_list enc_item (il_iter l);
       sx_nat (il_len l);
       sx_opt enc_item (hd_error (items l));
       sx_opt enc_item (hd_error (rev (items l)));
       sx_list (fun k => SL [sx_opt sx_nat (il_index l k); enc_get (il_get l k); sx_bool (il_contains_key l k)]) alpha;
       sx_list SS (filter (il_contains_key l) alpha);
       sx_nat (length (filter (il_contains_key l) alpha)) ].

Fixpoint run_obs (alpha : list string) (l : ilist) (ops : list op) : list sx :=
  match ops with
  | [] => []
  | o :: r =>
      match step l o with
      | Ok (l', res) => SL [enc_out res; observe alpha l'] :: run_obs alpha l' r
      | Panic s => [SL [SS "PANIC"]]
      | _ => [SL [SS "?"]]
      end
  end.

Definition run_c13 (x : sx) : sx :=
  match x with
  | SL [al; ops] =>
      match sx_to_list sx_to_string al, sx_to_list dec_op ops with
      | Some alpha, Some os => SL (run_obs alpha il_new os)
      | _, _ => bad_case
      end
  | _ => bad_case
  end.
