(** String escaping of the writer (writer.rs Writer::add_quoted_string), unescaping of the parser
    (parser.rs unescape_string) and the tokenizer's search for the end of a string
    (tokenizer.rs find_string_end), on byte lists.  All characters these functions inspect are
    ASCII, and UTF-8 lead/continuation bytes are >= 0x80, so working on bytes instead of chars
    gives the same result (unescape_string / add_quoted_string iterate over chars). *)
From Coq Require Import Ascii String List Bool Arith.
Import ListNotations.
Local Open Scope char_scope.

Definition bytes := list ascii.

(* linear-time list reversal (List.rev is quadratic); rev_append_rev relates the two *)
Definition frev {A} (l : list A) : list A := rev_append l [].

Definition bs : ascii := "\".
Definition dq : ascii := """".
Definition sq : ascii := "'".
Definition cr : ascii := ascii_of_nat 13.
Definition lf : ascii := ascii_of_nat 10.
Definition tab : ascii := ascii_of_nat 9.

Definition aeq (a b : ascii) : bool := Ascii.eqb a b.

(* ---------- writer: the text between the surrounding quotes ---------- *)
Definition esc1 (c : ascii) : bytes :=
  if aeq c sq || aeq c dq || aeq c bs then [bs; c]
  else if aeq c cr then [bs; "r"]
  else if aeq c lf then [bs; "n"]
  else if aeq c tab then [bs; "t"]
  else [c].
Definition escape (s : bytes) : bytes := flat_map esc1 s.

(* ---------- parser: unescape_string (sliding window over pairs) ---------- *)
Fixpoint unescape (l : bytes) : bytes :=
  match l with
  | [] => []
  | a :: tl =>
      match tl with
      | [] => [a]
      | b :: r =>
          if (aeq a bs || aeq a dq) && aeq b dq then dq :: unescape r
          else if aeq a bs && aeq b sq then sq :: unescape r
          else if aeq a bs && aeq b bs then bs :: unescape r
          else if aeq a bs && aeq b "n" then lf :: unescape r
          else if aeq a bs && aeq b "r" then cr :: unescape r
          else if aeq a bs && aeq b "t" then tab :: unescape r
          else a :: unescape tl
      end
  end.

(* ---------- tokenizer: find_string_end ----------
   [fse l pq pb n]: l = input after the opening quote; result = number of bytes up to and including
   the closing quote, None = string not closed *)
Fixpoint fse (l : bytes) (prev_quote prev_bkslash : bool) (n : nat) : option nat :=
  match l with
  | [] => if prev_quote then Some n else None
  | c :: r =>
      if aeq c dq then fse r (negb (prev_quote || prev_bkslash)) false (S n)
      else if prev_quote then Some n
      else if aeq c bs then fse r false (negb prev_bkslash) (S n)
      else fse r false false (S n)
  end.
Definition find_string_end (l : bytes) : option nat := fse l false false 0.
