(** Integer literals: parser.rs ParserState::get_integer (u64::from_str_radix for hex followed by the
    wrapping cast `as_()`, str::parse::<T> for decimal) and writer.rs Writer::add_integer
    ("{value}" / "0x{value:0X}"; UpperHex of a signed integer prints its two's complement at the
    width of the type). *)
From Coq Require Import Ascii String List Bool NArith ZArith.
From A2L Require Import Text.Escape Gram.Spec.
Import ListNotations.
Local Open Scope char_scope.

Definition ity_bits (t : ity) : N :=
  match t with I8 | U8 => 8 | I16 | U16 => 16 | I32 | U32 => 32 | I64 | U64 => 64 end%N.
Definition ity_signed (t : ity) : bool :=
  match t with I8 | I16 | I32 | I64 => true | _ => false end.

Definition in_range (t : ity) (v : Z) : bool :=
  let b := Z.of_N (ity_bits t) in
  if ity_signed t then ((- 2 ^ (b - 1) <=? v) && (v <? 2 ^ (b - 1)))%Z
  else ((0 <=? v) && (v <? 2 ^ b))%Z.

(* u64 -> T with `as`: keep the low bits, reinterpret as signed *)
Definition wrap (t : ity) (u : N) : Z :=
  let b := ity_bits t in
  let m := (u mod 2 ^ b)%N in
  if ity_signed t && (2 ^ (b - 1) <=? m)%N then (Z.of_N m - 2 ^ Z.of_N b)%Z else Z.of_N m.

(* ---------- digits ---------- *)
Definition digit_val (base : N) (c : ascii) : option N :=
  let n := N_of_ascii c in
  let v := if ((48 <=? n) && (n <=? 57))%N then Some (n - 48)%N
           else if ((97 <=? n) && (n <=? 102))%N then Some (n - 87)%N
           else if ((65 <=? n) && (n <=? 70))%N then Some (n - 55)%N
           else None in
  match v with Some d => if (d <? base)%N then Some d else None | None => None end.

Fixpoint parse_digits_acc (base : N) (l : bytes) (acc : N) : option N :=
  match l with
  | [] => Some acc
  | c :: r => match digit_val base c with
              | Some d => parse_digits_acc base r (acc * base + d)%N
              | None => None
              end
  end.
Definition parse_digits (base : N) (l : bytes) : option N :=
  match l with [] => None | _ => parse_digits_acc base l 0%N end.

Definition U64MAX : N := 18446744073709551615%N.

(* u64::from_str_radix(s, 16): optional leading '+', at least one digit, value <= u64::MAX *)
Definition parse_u64_hex (s : bytes) : option N :=
  let body := match s with c :: r => if aeq c "+" then r else s | [] => s end in
  match parse_digits 16 body with
  | Some v => if (v <=? U64MAX)%N then Some v else None
  | None => None
  end.

(* str::parse::<T>(): optional '+', for signed types alternatively '-', at least one decimal digit, in range *)
Definition parse_dec (t : ity) (s : bytes) : option Z :=
  let '(neg, body) :=
    match s with
    | c :: r => if aeq c "+" then (false, r)
                else if aeq c "-" && ity_signed t then (true, r)
                else (false, s)
    | [] => (false, s)
    end in
  match parse_digits 10 body with
  | Some v => let z := if neg then (- Z.of_N v)%Z else Z.of_N v in
              if in_range t z then Some z else None
  | None => None
  end.

Definition is_hex_prefixed (text : bytes) : bool :=
  match text with
  | a :: b :: _ => aeq a "0" && (aeq b "x" || aeq b "X")
  | _ => false
  end.

Definition get_integer_text (t : ity) (text : bytes) : option (Z * bool) :=
  if (2 <? length text)%nat && is_hex_prefixed text then
    match parse_u64_hex (skipn 2 text) with
    | Some u => if (u <? 2 ^ ity_bits t)%N then Some (wrap t u, true) else None   (* must fit the width *)
    | None => None
    end
  else
    match parse_dec t text with
    | Some v => Some (v, false)
    | None => None
    end.

(* ---------- printing ---------- *)
Definition digit_char (upper : bool) (d : N) : ascii :=
  if (d <? 10)%N then ascii_of_N (48 + d) else ascii_of_N ((if upper then 55 else 87) + d).

Fixpoint digits_fuel (fuel : nat) (upper : bool) (base n : N) : bytes :=
  match fuel with
  | O => []
  | S f => if (n <? base)%N then [digit_char upper n]
           else digits_fuel f upper base (n / base)%N ++ [digit_char upper (n mod base)%N]
  end.
Definition digits (upper : bool) (base n : N) : bytes :=
  digits_fuel (S (N.to_nat (N.log2 n))) upper base n.

Definition dec_of_Z (v : Z) : bytes :=
  match v with
  | Zneg p => "-" :: digits false 10 (Npos p)
  | _ => digits false 10 (Z.to_N v)
  end.

Definition add_integer_text (t : ity) (v : Z) (is_hex : bool) : bytes :=
  if is_hex then
    "0" :: "x" :: digits true 16 (Z.to_N (v mod 2 ^ Z.of_N (ity_bits t))%Z)
  else dec_of_Z v.

(* u64 -> f64 (`num as f64`): round to nearest, ties to even; result as IEEE-754 bit pattern *)
Definition f64_bits_of_u64 (v : N) : N :=
  if (v =? 0)%N then 0%N else
  let e := N.log2 v in
  if (e <=? 52)%N then ((e + 1023) * 2 ^ 52 + (v * 2 ^ (52 - e) - 2 ^ 52))%N
  else
    let sh := (e - 52)%N in
    let q := (v / 2 ^ sh)%N in
    let rem := (v mod 2 ^ sh)%N in
    let half := (2 ^ (sh - 1))%N in
    let q' := if (half <? rem)%N || ((rem =? half)%N && N.odd q) then (q + 1)%N else q in
    if (q' =? 2 ^ 53)%N then ((e + 1 + 1023) * 2 ^ 52)%N
    else ((e + 1023) * 2 ^ 52 + (q' - 2 ^ 52))%N.
